//go:build !verifnonode && verifnoraw

package main

// Fallback (tag verifnoraw): /repo/verif_node_raw.go does not compile against the
// current tree (a search primitive changed its signature). C10 runs without the
// direct primitive sweeps; the primitives are still exercised through
// Add/Remove/Find on the bare node.

const hookRaw = false

func rawSearch4(keys uint32, b byte) int                 { return -1 }
func rawInsertPos4(keys uint32, b byte) int              { return 0 }
func rawSearch16(keys *[16]byte, n uint8, b byte) int    { return -1 }
func rawInsertPos16(keys *[16]byte, n uint8, b byte) int { return 0 }
