package main

import (
	"bytes"
	"encoding/json"
	"fmt"
	"os"
	"os/exec"
	"path/filepath"
	"runtime"
	"sort"
	"strings"
	"sync"
	"time"
)

// ---- orchestration: build variants, fan out workers, minimise, replay, evidence ----

var rootDir = func() string {
	if r := os.Getenv("VERIF_ROOT"); r != "" {
		return r
	}
	exe, err := os.Executable()
	if err == nil {
		d := filepath.Dir(filepath.Dir(exe))
		if _, err := os.Stat(filepath.Join(d, "properties.jsonl")); err == nil {
			return d
		}
	}
	return "/verif"
}()

type knownFinding struct {
	Prop, ID, Domain, Text string
}

func loadKnownFindings() []knownFinding {
	var out []knownFinding
	for _, ln := range readLines(filepath.Join(rootDir, "KNOWN_FINDINGS.txt")) {
		ln = strings.TrimSpace(ln)
		if !strings.HasPrefix(ln, "known:") {
			continue
		}
		kf := knownFinding{}
		rest := strings.TrimSpace(strings.TrimPrefix(ln, "known:"))
		var text []string
		for _, f := range strings.Fields(rest) {
			switch {
			case strings.HasPrefix(f, "property=") && kf.Prop == "":
				kf.Prop = strings.TrimPrefix(f, "property=")
			case strings.HasPrefix(f, "id=") && kf.ID == "":
				kf.ID = strings.TrimPrefix(f, "id=")
			case strings.HasPrefix(f, "domain=") && kf.Domain == "":
				kf.Domain = strings.TrimPrefix(f, "domain=")
			default:
				text = append(text, f)
			}
		}
		kf.Text = strings.Join(text, " ")
		out = append(out, kf)
	}
	return out
}

type checkCfg struct {
	engine       string
	quickRuns    int
	thoroughRuns int
	kfDomains    []string // domains with an own generator, run as separate batches
	env          []string
	crashIsMine  bool // any hard crash during the run is a violation of this property
	binName      string
	buildFlags   []string
	points       bool // thorough tier adds statement-level collection points
	alsoPlain    bool // a second batch with the plain build (checkptr moves some stack objects to the heap and can hide stack-lifetime bugs)
	gcStress     bool // supplementary, non-deterministic batch: background collector at GC percent 1, several Ps
	arch386      int  // 0 = never; 1 = thorough tier; 2 = quick tier too: an extra batch built with GOARCH=386 (portable node16 routines, 32-bit uint/int)
}

var checkCfgs = map[string]checkCfg{
	"C01": {engine: "world", quickRuns: 60000, thoroughRuns: 600000, arch386: 2, kfDomains: []string{"KF-NUL-PREFIX"}},
	"C02": {engine: "world", quickRuns: 50000, thoroughRuns: 400000, arch386: 1},
	"C03": {engine: "world", quickRuns: 80000, thoroughRuns: 500000, arch386: 1},
	"C04": {engine: "world", quickRuns: 80000, thoroughRuns: 500000},
	"C05": {engine: "world", quickRuns: 25000, thoroughRuns: 250000, arch386: 1},
	"C06": {engine: "world", quickRuns: 40000, thoroughRuns: 400000, arch386: 1},
	"C08": {engine: "world", quickRuns: 25000, thoroughRuns: 200000},
	"C09": {engine: "world", quickRuns: 25000, thoroughRuns: 300000, arch386: 1},
	"C11": {engine: "world", quickRuns: 30000, thoroughRuns: 300000, arch386: 1},
	"C12": {engine: "world", quickRuns: 12000, thoroughRuns: 80000},
	"C13": {engine: "world", quickRuns: 60000, thoroughRuns: 400000},
	"C14": {engine: "world", quickRuns: 30000, thoroughRuns: 200000},
	"C15": {engine: "world", quickRuns: 20000, thoroughRuns: 200000},
	"C18": {engine: "world", quickRuns: 6000, thoroughRuns: 60000, env: []string{"GODEBUG=clobberfree=1"}, crashIsMine: true, binName: "sim-checkptr", buildFlags: []string{"-gcflags=all=-d=checkptr=2"}, points: true, alsoPlain: true, gcStress: true},
	"C10": {engine: "node", quickRuns: 30000, thoroughRuns: 120000, arch386: 2},
	"C16": {engine: "race", quickRuns: 320, thoroughRuns: 30000},
	"C17": {engine: "heap", quickRuns: 288, thoroughRuns: 1152},
}

type checker struct {
	prop    string
	tier    string
	seed    uint64
	cfg     checkCfg
	workers int
	budget  time.Duration
	self    string
	workDir string
	known   []knownFinding
	start   time.Time
	lines   []string // VIOLATION / KNOWN-FINDING lines
	nViol   int
	broken  bool
	notes   []string
	kfPrinted map[string]bool
	seenSig   map[string]bool
	inconclusive []string
	incidents    []string // environment trouble around a run that is clean when re-executed alone (reported, not a verdict)
	raceCrashMine bool // set while handling a crash shown to need the concurrent schedule
}

func (c *checker) knownIDs(domain string) string {
	var ids []string
	for _, k := range c.known {
		if k.Prop == c.prop {
			ids = append(ids, k.ID)
		}
	}
	return strings.Join(ids, ",")
}

func (c *checker) kfListed(id string) *knownFinding {
	for i := range c.known {
		if c.known[i].Prop == c.prop && c.known[i].ID == id {
			return &c.known[i]
		}
	}
	return nil
}

func (c *checker) logf(format string, a ...any) {
	fmt.Fprintf(os.Stderr, "[%s %s %6.1fs] %s\n", c.prop, c.tier, time.Since(c.start).Seconds(), fmt.Sprintf(format, a...))
}

type batchResult struct {
	domain    string
	runs      int
	steps     int
	records   []runRecord
	ops       map[string]int
	events    map[string]int
	probes    map[string]int
	skipped   map[string]int
	knownHits map[string]int
	kinds     map[string]int
	upstream  int
	shapes    map[uint64]struct{}
	states    map[uint64]struct{}
	samples   []*Trace
	crashes   []crashRec
	wall      time.Duration
}

type crashRec struct {
	run    int
	stderr string
	points []PointAct
	hang   bool
}

func newBatchResult(domain string) *batchResult {
	return &batchResult{domain: domain, ops: map[string]int{}, events: map[string]int{}, probes: map[string]int{}, skipped: map[string]int{}, knownHits: map[string]int{}, kinds: map[string]int{}, shapes: map[uint64]struct{}{}, states: map[uint64]struct{}{}}
}

func tail(s string, n int) string {
	if len(s) > n {
		return "…" + s[len(s)-n:]
	}
	return s
}

// headTail keeps the beginning (where a Go traceback names the failing frame)
// and the end of a long text.
func headTail(s string, n int) string {
	if len(s) > 2*n {
		return s[:n] + "\n…\n" + s[len(s)-n:]
	}
	return s
}

// runBatch fans N runs of one domain out over the workers.
func (c *checker) runBatch(bin string, domain string, N int, extraEnv []string) *batchResult {
	br := newBatchResult(domain)
	t0 := time.Now()
	W := c.workers
	if W > N {
		W = max(1, N)
	}
	deadline := int64(0)
	if c.budget > 0 {
		deadline = time.Now().Add(c.budget).Unix()
	}
	var mu sync.Mutex
	var wg sync.WaitGroup
	for w := 0; w < W; w++ {
		wg.Add(1)
		go func(w int) {
			defer wg.Done()
			from := w
			var skips []string
			hangs := 0
			for attempt := 0; attempt < 8 && from < N && hangs < 2; attempt++ {
				out := filepath.Join(c.workDir, fmt.Sprintf("%s-w%d-a%d.json", domain, w, attempt))
				jr := filepath.Join(c.workDir, fmt.Sprintf("%s-w%d-a%d.journal", domain, w, attempt))
				os.Remove(out)
				os.Remove(jr)
				wargs := []string{"worker", "-prop", c.prop, "-seed", fmt.Sprint(c.seed), "-from", fmt.Sprint(from), "-to", fmt.Sprint(N),
					"-stride", fmt.Sprint(W), "-tier", c.tier, "-domain", domain, "-known", c.knownIDs(domain), "-out", out, "-journal", jr, "-deadline", fmt.Sprint(deadline), "-skip", strings.Join(skips, ",")}
				for _, e := range extraEnv {
					if e == "VERIF_ISOLATE=1" {
						wargs = append(wargs, "-isolate")
					}
				}
				cmd := exec.Command(bin, wargs...)
				cmd.Env = append(append(os.Environ(), "GOMAXPROCS=1"), extraEnv...)
				var stderr bytes.Buffer
				cmd.Stderr = &stderr
				done := make(chan error, 1)
				if err := cmd.Start(); err != nil {
					mu.Lock()
					c.broken = true
					c.notes = append(c.notes, "cannot start worker: "+err.Error())
					mu.Unlock()
					return
				}
				go func() { done <- cmd.Wait() }()
				var err error
				limit := 45 * time.Minute
				if c.budget > 0 {
					limit = c.budget*3 + 2*time.Minute
				}
				select {
				case err = <-done:
				case <-time.After(limit):
					cmd.Process.Kill()
					<-done
					mu.Lock()
					c.broken = true
					c.notes = append(c.notes, fmt.Sprintf("watchdog: worker %d of domain %s did not finish within %v", w, domain, limit))
					mu.Unlock()
					return
				}
				var wo workerOut
				ok := readJSON(out, &wo) == nil
				if err == nil && ok {
					mu.Lock()
					c.merge(br, &wo)
					mu.Unlock()
					if wo.Done || wo.NextRun >= N || deadline > 0 && time.Now().Unix() >= deadline {
						return
					}
					from = wo.NextRun
					continue
				}
				// abnormal exit: the journal names the run that killed the worker
				crashed := -1
				jl := readLines(jr)
				var crashPoints []PointAct
				hung := false
				for i := len(jl) - 1; i >= 0; i-- {
					if strings.HasPrefix(jl[i], "HANG ") {
						hung = true
					}
					if strings.HasPrefix(jl[i], "POINTS ") && crashPoints == nil {
						var n int
						fmt.Sscanf(jl[i], "POINTS %d", &n)
						if f := strings.SplitN(jl[i], " ", 3); len(f) == 3 {
							json.Unmarshal([]byte(f[2]), &crashPoints)
						}
					}
					if strings.HasPrefix(jl[i], "BEGIN ") {
						fmt.Sscanf(jl[i], "BEGIN %d", &crashed)
						break
					}
				}
				mu.Lock()
				if crashed < 0 {
					c.broken = true
					c.notes = append(c.notes, fmt.Sprintf("worker %d died before its first run: %v: %s", w, err, tail(stderr.String(), 600)))
					mu.Unlock()
					return
				}
				br.crashes = append(br.crashes, crashRec{run: crashed, stderr: headTail(stderr.String(), 3000), points: crashPoints, hang: hung})
				if hung {
					hangs++
				}
				// keep what the worker had flushed; resume from its flush point, skipping the killer
				skips = append(skips, fmt.Sprint(crashed))
				if ok {
					c.merge(br, &wo)
					from = wo.NextRun
				}
				mu.Unlock()
			}
		}(w)
	}
	wg.Wait()
	br.wall = time.Since(t0)
	sort.Slice(br.records, func(i, j int) bool { return br.records[i].Run < br.records[j].Run })
	return br
}

func (c *checker) merge(br *batchResult, wo *workerOut) {
	br.records = append(br.records, wo.Records...)
	br.runs += len(wo.Records)
	br.steps += wo.Steps
	addMap(br.ops, wo.Ops)
	addMap(br.events, wo.Events)
	addMap(br.probes, wo.Probes)
	addMap(br.skipped, wo.Skipped)
	addMap(br.knownHits, wo.KnownHits)
	addMap(br.kinds, wo.Kinds)
	br.upstream += wo.Upstream
	for _, h := range wo.Shapes {
		br.shapes[h] = struct{}{}
	}
	for _, h := range wo.States {
		br.states[h] = struct{}{}
	}
	if len(br.samples) < 3 {
		br.samples = append(br.samples, wo.Samples...)
		if len(br.samples) > 3 {
			br.samples = br.samples[:3]
		}
	}
}

// execChild runs one trace in a fresh process and returns its verdict.
type childVerdict struct {
	Violation  *Violation `json:"violation"`
	Transcript uint64     `json:"tx"`
	crashed    bool
	lastStep   int
	inObs      bool
	stderr     string
	timedOut   bool
}

func (c *checker) execChild(bin string, tr *Trace, extraEnv []string, timeout time.Duration) *childVerdict {
	f := filepath.Join(c.workDir, fmt.Sprintf("cand-%d.json", time.Now().UnixNano()))
	writeJSON(f, &ReplayFile{Trace: tr})
	defer os.Remove(f)
	return c.execFile(bin, f, extraEnv, timeout)
}

func (c *checker) execFile(bin, f string, extraEnv []string, timeout time.Duration) *childVerdict {
	cmd := exec.Command(bin, "exec", "-trace", f, "-known", c.knownIDs(""))
	cmd.Env = append(append(os.Environ(), "GOMAXPROCS=1", "VERIF_STEPLOG=1"), extraEnv...)
	var so, se bytes.Buffer
	cmd.Stdout = &so
	cmd.Stderr = &se
	cv := &childVerdict{lastStep: -1}
	if err := cmd.Start(); err != nil {
		cv.crashed = true
		cv.stderr = err.Error()
		return cv
	}
	done := make(chan error, 1)
	go func() { done <- cmd.Wait() }()
	select {
	case <-done:
	case <-time.After(timeout):
		cmd.Process.Kill()
		<-done
		cv.timedOut = true
	}
	for _, ln := range strings.Split(se.String(), "\n") {
		var n int
		if _, err := fmt.Sscanf(ln, "STEP %d", &n); err == nil {
			cv.lastStep = n
			cv.inObs = false
		} else if _, err := fmt.Sscanf(ln, "OBS %d", &n); err == nil {
			cv.inObs = true
		}
	}
	var errLines []string
	for _, ln := range strings.Split(se.String(), "\n") {
		if !strings.HasPrefix(ln, "STEP ") && !strings.HasPrefix(ln, "OBS ") {
			errLines = append(errLines, ln)
		}
	}
	cv.stderr = headTail(strings.Join(errLines, "\n"), 5000)
	got := false
	for _, ln := range strings.Split(so.String(), "\n") {
		if strings.HasPrefix(ln, "RESULT ") {
			if json.Unmarshal([]byte(strings.TrimPrefix(ln, "RESULT ")), cv) == nil {
				got = true
			}
		}
	}
	if !got && !cv.timedOut {
		cv.crashed = true
	}
	return cv
}

// crashViolation turns a hard crash of the child into a verdict, or nil when the
// crash is not this property's obligation.
func (c *checker) crashViolation(tr *Trace, cv *childVerdict) *Violation {
	if !cv.crashed {
		return nil
	}
	mine := c.cfg.crashIsMine || cv.inObs || c.raceCrashMine
	if !mine && cv.lastStep >= 0 && cv.lastStep < len(tr.Steps) {
		s := tr.Steps[cv.lastStep]
		or := propOracles[c.prop]
		if or&opOracle(s.Op) != 0 || (isSeqOp(s.Op) && or&oAbandon != 0) {
			mine = true
		}
	}
	if strings.Contains(cv.stderr, "out of memory") || strings.Contains(cv.stderr, "cannot allocate memory") {
		// the machine, not the library: never a verdict
		c.broken = true
		c.notes = append(c.notes, "a run died for lack of memory (environment): "+tail(cv.stderr, 300))
		return nil
	}
	if !strings.Contains(cv.stderr, "Clement-Jean/go-art") && !strings.Contains(cv.stderr, "/repo/") && !c.cfg.crashIsMine {
		// no library frame in the crash: the harness itself is at fault
		c.broken = true
		c.notes = append(c.notes, "harness crash (no library frame on the stack): "+tail(cv.stderr, 1500))
		return nil
	}
	if !mine {
		return nil
	}
	first := ""
	for _, ln := range strings.Split(cv.stderr, "\n") {
		if strings.Contains(ln, "fatal error") || strings.Contains(ln, "panic:") || strings.Contains(ln, "SIG") || strings.Contains(ln, "checkptr") {
			first = strings.TrimSpace(ln)
			break
		}
	}
	orc := "process-crash"
	if c.raceCrashMine {
		orc = "C16-crash-under-schedule"
	}
	return &Violation{Prop: c.prop, Class: "crash", Oracle: orc, Step: cv.lastStep, Detail: "the process died during the run: " + first}
}

func sameFailure(a, b *Violation) bool {
	return a != nil && b != nil && a.Class == b.Class && a.Oracle == b.Oracle
}

// minimise shrinks tr while test still reports the same failure.
func minimise(tr *Trace, want *Violation, test func(*Trace) *Violation, budget time.Duration) *Trace {
	t0 := time.Now()
	cur := cloneTrace(tr)
	still := func(t *Trace) bool {
		if time.Since(t0) > budget {
			return false
		}
		return sameFailure(test(t), want)
	}
	// 1. drop whole trees
	for ti := len(cur.Trees) - 1; ti >= 0 && len(cur.Trees) > 1; ti-- {
		cand := dropTree(cur, ti)
		if still(cand) {
			cur = cand
		}
	}
	// 2. truncate after the failing step
	if want.Step >= 0 && want.Step+1 < len(cur.Steps) {
		cand := cloneTrace(cur)
		cand.Steps = cand.Steps[:want.Step+1]
		if still(cand) {
			cur = cand
		}
	}
	// 3. delta debugging over steps
	n := 2
	for len(cur.Steps) >= 2 {
		chunk := (len(cur.Steps) + n - 1) / n
		reduced := false
		for lo := 0; lo < len(cur.Steps); lo += chunk {
			hi := min(lo+chunk, len(cur.Steps))
			cand := cloneTrace(cur)
			cand.Steps = append(append([]Step{}, cur.Steps[:lo]...), cur.Steps[hi:]...)
			if still(cand) {
				cur = cand
				n = max(n-1, 2)
				reduced = true
				break
			}
		}
		if !reduced {
			if chunk == 1 {
				break
			}
			n = min(n*2, len(cur.Steps))
		}
		if time.Since(t0) > budget {
			break
		}
	}
	// 4. simplify steps: shorter keys, smaller bytes, simpler ops
	for pass := 0; pass < 3; pass++ {
		changed := false
		for i := range cur.Steps {
			for _, cand := range simplifyStep(cur, i) {
				if still(cand) {
					cur = cand
					changed = true
					break
				}
			}
		}
		if !changed || time.Since(t0) > budget {
			break
		}
	}
	// 4b. drop statement-point actions
	for pi := len(cur.Points) - 1; pi >= 0; pi-- {
		cand := cloneTrace(cur)
		cand.Points = append(append([]PointAct{}, cur.Points[:pi]...), cur.Points[pi+1:]...)
		if still(cand) {
			cur = cand
		}
	}
	// 5. simpler value type
	for ti := range cur.Trees {
		if cur.Trees[ti].Val != "i64" {
			cand := cloneTrace(cur)
			cand.Trees[ti].Val = "i64"
			if still(cand) {
				cur = cand
			}
		}
	}
	return cur
}

func cloneTrace(t *Trace) *Trace {
	c := *t
	c.Trees = append([]TreeCfg{}, t.Trees...)
	c.Steps = append([]Step{}, t.Steps...)
	c.Points = append([]PointAct{}, t.Points...)
	return &c
}

func dropTree(t *Trace, ti int) *Trace {
	c := cloneTrace(t)
	c.Trees = append(append([]TreeCfg{}, t.Trees[:ti]...), t.Trees[ti+1:]...)
	c.Steps = c.Steps[:0]
	for _, s := range t.Steps {
		if s.T == ti {
			continue
		}
		if s.T > ti {
			s.T--
		}
		c.Steps = append(c.Steps, s)
	}
	return c
}

func simplifyStep(t *Trace, i int) []*Trace {
	var out []*Trace
	s := t.Steps[i]
	if s.T < 0 || s.T >= len(t.Trees) {
		return nil
	}
	if t.Mode == "heap" {
		for _, n := range []int{s.N / 8, s.N / 2} {
			if n >= 1000 {
				c := cloneTrace(t)
				c.Steps[i].N = n
				out = append(out, c)
			}
		}
		return out
	}
	kind := t.Trees[s.T].Key.Kind
	with := func(ns Step) {
		c := cloneTrace(t)
		c.Steps[i] = ns
		out = append(out, c)
	}
	if kind == "alpha" {
		// the same key may occur in several steps: rewrite it everywhere at once
		rewrite := func(old, nw []byte) {
			c := cloneTrace(t)
			for j := range c.Steps {
				if c.Steps[j].T == s.T {
					if bytes.Equal(c.Steps[j].K, old) {
						c.Steps[j].K = nw
					}
					if bytes.Equal(c.Steps[j].K2, old) && len(old) > 0 {
						c.Steps[j].K2 = nw
					}
				}
			}
			out = append(out, c)
		}
		k := []byte(s.K)
		for p := 0; p < len(k) && p < 40; p++ {
			nk := append(clone(k[:p]), k[p+1:]...)
			rewrite(k, nk)
		}
		for p := 0; p < len(k) && p < 40; p++ {
			if k[p] != 'a' {
				nk := clone(k)
				nk[p] = 'a'
				rewrite(k, nk)
			}
		}
	}
	if s.Lay != 0 {
		ns := s
		ns.Lay, ns.Pad = 0, 0
		with(ns)
	}
	switch s.Op {
	case "range", "prefix", "topk", "botk", "all", "back", "min", "max", "size":
		ns := s
		ns.Op = "get"
		ns.K2 = nil
		ns.N = 0
		with(ns)
	}
	return out
}

// ---- the world check ----

func (c *checker) build(name string, flags []string, env []string) (string, bool) {
	bin := filepath.Join(rootDir, ".build", name)
	args := append([]string{"build", "-tags", hookTags()}, modfileArgs()...)
	args = append(args, flags...)
	args = append(args, "-o", bin, ".")
	cmd := exec.Command(goTool(), args...)
	cmd.Dir = filepath.Join(rootDir, "sim")
	cmd.Env = append(goEnv(), env...)
	out, err := cmd.CombinedOutput()
	if err != nil {
		c.broken = true
		c.notes = append(c.notes, fmt.Sprintf("build of %s failed: %v\n%s", name, err, tail(string(out), 3000)))
		return "", false
	}
	return bin, true
}

// repoDir is the tree the checks build against: /repo, unless VERIF_REPO points
// at a snapshot of it (background runs that must not see later edits of /repo).
// hookTags: the build tags this binary itself was built with (the check script
// falls back to fewer hooks when a hook file does not compile against the tree).
func hookTags() string {
	t := "verif"
	if !hookNode {
		t += " verifnonode"
	} else {
		if !hookIter {
			t += " verifnoiter"
		}
		if !hookRaw {
			t += " verifnoraw"
		}
	}
	if !hookWalk {
		t += " verifnowalk"
	}
	return t
}

func repoDir() string {
	if r := os.Getenv("VERIF_REPO"); r != "" {
		return r
	}
	return "/repo"
}

// modfileArgs returns the -modfile flag that redirects the replace directive
// when the repository is not at /repo.
func modfileArgs() []string {
	if repoDir() == "/repo" {
		return nil
	}
	mod := "module verifsim\n\ngo 1.24.0\n\nrequire (\n\tgithub.com/Clement-Jean/go-art v0.0.0\n\tgolang.org/x/text v0.23.0\n)\n\nreplace github.com/Clement-Jean/go-art => " + repoDir() + "\n"
	modfile := filepath.Join(rootDir, ".build", "alt.mod")
	os.WriteFile(modfile, []byte(mod), 0o644)
	sum, _ := os.ReadFile(filepath.Join(repoDir(), "go.sum"))
	os.WriteFile(filepath.Join(rootDir, ".build", "alt.sum"), sum, 0o644)
	return []string{"-modfile=" + modfile}
}

func goTool() string {
	if g := os.Getenv("VERIF_GO"); g != "" {
		return g
	}
	return "go1.26.8"
}

func goEnv() []string {
	env := []string{}
	for _, e := range os.Environ() {
		if strings.HasPrefix(e, "GOFLAGS=") || strings.HasPrefix(e, "GOTOOLCHAIN=") || strings.HasPrefix(e, "GOPROXY=") || strings.HasPrefix(e, "GOARCH=") || strings.HasPrefix(e, "GOMAXPROCS=") {
			continue
		}
		env = append(env, e)
	}
	tc := "local"
	if goTool() == "go" {
		tc = "auto"
	}
	return append(env, "GOFLAGS=-mod=mod", "GOPROXY=off", "GOTOOLCHAIN="+tc)
}

func (c *checker) runsFor() int {
	n := c.cfg.quickRuns
	if c.tier == "thorough" {
		n = c.cfg.thoroughRuns
	}
	if v := envInt("VERIF_RUNS", 0); v > 0 {
		n = v
	}
	return n
}

// handleViolations: confirm, minimise, write replay, replay once, print.
func (c *checker) handleViolations(bin string, br *batchResult, extraEnv []string) {
	type cand struct {
		run    int
		v      *Violation
		size   int
		points []PointAct
		hang   bool
	}
	var cands []cand
	for _, r := range br.records {
		if r.Violation != nil {
			cands = append(cands, cand{r.Run, r.Violation, r.Steps, r.Points, false})
		}
	}
	for _, cr := range br.crashes {
		cands = append(cands, cand{cr.run, nil, 0, cr.points, cr.hang})
	}
	if len(cands) == 0 {
		return
	}
	// one representative per failure signature, smallest run first
	// violations reported by a worker first (cheap to confirm), crashed runs next,
	// suspected hangs last (each costs minutes to confirm)
	rank := func(cd cand) int {
		switch {
		case cd.v != nil:
			return 0
		case cd.hang:
			return 2
		}
		return 1
	}
	sort.Slice(cands, func(i, j int) bool {
		if rank(cands[i]) != rank(cands[j]) {
			return rank(cands[i]) < rank(cands[j])
		}
		if cands[i].size != cands[j].size {
			return cands[i].size < cands[j].size
		}
		return cands[i].run < cands[j].run
	})
	seen := c.seenSig
	if br.domain != "main" {
		seen = map[string]bool{}
	}
	hvStart := time.Now()
	hvLimit := 4 * time.Minute
	if c.tier == "thorough" {
		hvLimit = 15 * time.Minute
	}
	reported := 0
	o := genOptsFor(c.tier, br.domain, runtime.GOARCH)
	o.churnBias, o.growBias = false, false
	for _, e := range extraEnv {
		if e == "VERIF_POINTS=1" {
			o.churnBias = true
		}
		if strings.HasPrefix(e, "VERIF_GCPERCENT=") || e == "VERIF_GROWBIAS=1" {
			o.growBias = true
		}
	}
	for _, cd := range cands {
		sig := "crash"
		if cd.hang {
			sig = "hang"
		}
		if cd.v != nil {
			sig = cd.v.Class + "/" + cd.v.Oracle
		}
		if seen[sig] || reported >= 3 {
			continue
		}
		if time.Since(hvStart) > hvLimit {
			c.inconclusive = append(c.inconclusive, fmt.Sprintf("%d more candidate run(s) were not examined: the time set aside for confirming and minimising was used up", len(cands)))
			break
		}
		c.raceCrashMine = false
		tr := genTrace(c.prop, c.seed, cd.run, o)
		tr.Points = cd.points
		if cd.hang {
			// suspected hang: the run alone, twice, each with a limit four orders of
			// magnitude above a normal run; both must stall in the same operation
			a := c.execChild(bin, tr, extraEnv, 120*time.Second)
			if !a.timedOut && !a.crashed && a.Violation == nil {
				// it was only slow where it ran (a loaded machine): alone it completes, clean
				c.incidents = append(c.incidents, fmt.Sprintf("run %d tripped the worker's watchdog but completes normally and clean when re-executed alone", cd.run))
				continue
			}
			b := c.execChild(bin, tr, extraEnv, 120*time.Second)
			if a.timedOut && b.timedOut && a.lastStep == b.lastStep && a.inObs == b.inObs && a.lastStep >= 0 && a.lastStep < len(tr.Steps) {
				st := tr.Steps[a.lastStep]
				or := propOracles[c.prop]
				if a.inObs || or&opOracle(st.Op) != 0 || (isSeqOp(st.Op) && or&oAbandon != 0) || c.cfg.crashIsMine {
					hv := &Violation{Prop: c.prop, Class: "hang", Oracle: "returns-normally", Step: a.lastStep, Detail: fmt.Sprintf("%s(%x,%x) at step %d did not return within 120 s in two separate executions (a normal run takes milliseconds)", st.Op, []byte(st.K), []byte(st.K2), a.lastStep)}
					small := cloneTrace(tr)
					small.Steps = small.Steps[:a.lastStep+1]
					rp := filepath.Join(rootDir, "replays", fmt.Sprintf("%s-%s-seed%d-run%d.json", c.prop, br.domain, c.seed, cd.run))
					os.MkdirAll(filepath.Dir(rp), 0o755)
					writeJSON(rp, &ReplayFile{Violation: hv, Trace: small, Note: "suspected hang; truncated after the stalling step; replay with ./check " + c.prop + " --replay " + rp})
					rv := c.execFile(bin, rp, extraEnv, 120*time.Second)
					if rv.timedOut && rv.lastStep == a.lastStep {
						reported++
						c.nViol++
						c.lines = append(c.lines, fmt.Sprintf("VIOLATION property=%s replay=%s", c.prop, rp))
						c.logf("  %s", hv)
						seen["hang"] = true
						continue
					}
				}
			}
			c.inconclusive = append(c.inconclusive, fmt.Sprintf("run %d: a worker stalled in this run; not confirmed as a hang of an operation this property is responsible for", cd.run))
			continue
		}
		confirmTries := 1
		for _, e := range extraEnv {
			if strings.HasPrefix(e, "VERIF_GCPERCENT=") || e == "VERIF_GCASYNC=1" {
				confirmTries = 10 // the background collector's timing is not under the simulator's control
			}
		}
		if c.cfg.engine == "race" {
			// under -race sync.Pool drops one Put in four at random: whether another
			// goroutine's tree receives the very node just released is a coin flip
			confirmTries = 10
		}
		var cv *childVerdict
		var want *Violation
		for a := 0; a < confirmTries && want == nil; a++ {
			cv = c.execChild(bin, tr, extraEnv, 5*time.Minute)
			want = cv.Violation
			if want == nil {
				want = c.crashViolation(tr, cv)
			}
		}
		if want == nil && cv.crashed && c.cfg.engine == "race" && (strings.Contains(cv.stderr, "Clement-Jean/go-art") || strings.Contains(cv.stderr, "/repo/")) {
			// a hard crash inside the library during a multi-goroutine run: it is this
			// property's business only if the same operations on one goroutine are fine
			seq := cloneTrace(tr)
			seq.Gs = 1
			seq.Points = nil
			sv := c.execChild(bin, seq, extraEnv, 5*time.Minute)
			if !sv.crashed && !sv.timedOut && sv.Violation == nil {
				c.raceCrashMine = true
				want = c.crashViolation(tr, cv)
				if want != nil {
					want.Oracle = "C16-crash-under-schedule"
					want.Detail += " (the same operations executed by a single goroutine complete normally)"
				}
			}
		}
		if want == nil {
			if cd.v == nil && !cv.crashed && !cv.timedOut {
				// a worker died in this run but the run alone is clean: inconclusive, never silent
				c.incidents = append(c.incidents, fmt.Sprintf("run %d: a worker process died during this run; the run re-executed alone completes normally and clean", cd.run))
				continue
			}
			if cv.crashed && cd.v == nil {
				c.logf("run %d crashed outside this property's obligations (step %d); not reported here", cd.run, cv.lastStep)
				br.upstream++
				continue
			}
			if cv.timedOut {
				c.broken = true
				c.notes = append(c.notes, fmt.Sprintf("run %d did not finish within the replay timeout", cd.run))
				continue
			}
			// not reproduced in a fresh process: either the library's behaviour depends on
			// something outside the trace (addresses, leftovers of earlier runs in the
			// worker) or the harness is nondeterministic. Never reported as a violation,
			// never silent: inconclusive, and the check has no verdict unless another
			// violation was confirmed.
			c.inconclusive = append(c.inconclusive, fmt.Sprintf("run %d reported %v in the worker but not when re-executed alone", cd.run, cd.v))
			continue
		}
		seen[sig] = true
		seen[want.Class+"/"+want.Oracle] = true
		c.logf("violation in run %d: %s — minimising (%d steps)", cd.run, want, len(tr.Steps))
		var test func(*Trace) *Violation
		if want.Class == "crash" || len(extraEnv) > 0 {
			attempts := 1
			if want.Class == "race" {
				attempts = 3 // the detector keeps a bounded access history: a report can be missed, never invented
			}
			for _, e := range extraEnv {
				if strings.HasPrefix(e, "VERIF_GCPERCENT=") || e == "VERIF_GCASYNC=1" {
					attempts = 4
				}
			}
			test = func(t *Trace) *Violation {
				var last *Violation
				for a := 0; a < attempts; a++ {
					v := c.execChild(bin, t, extraEnv, 2*time.Minute)
					last = v.Violation
					if last == nil {
						last = c.crashViolation(t, v)
					}
					if sameFailure(last, want) {
						return last
					}
				}
				return last
			}
		} else {
			kn := parseKnown(c.knownIDs(""))
			test = func(t *Trace) *Violation { return newExec(t, kn).Run() }
		}
		runtime.GOMAXPROCS(1)
		mbudget := 90 * time.Second
		if c.tier == "quick" {
			mbudget = 20 * time.Second
		}
		if want.Class == "race" {
			mbudget = 30 * time.Second
		}
		small := minimise(tr, want, test, mbudget)
		runtime.GOMAXPROCS(runtime.NumCPU())
		final := test(small)
		if !sameFailure(final, want) {
			small, final = tr, want
		}
		rp := filepath.Join(rootDir, "replays", fmt.Sprintf("%s-%s-seed%d-run%d.json", c.prop, br.domain, c.seed, cd.run))
		os.MkdirAll(filepath.Dir(rp), 0o755)
		rf := &ReplayFile{Violation: final, Trace: small, Note: fmt.Sprintf("minimised from %d to %d steps; replay: ./check %s --replay %s", len(tr.Steps), len(small.Steps), c.prop, rp)}
		if final.Class == "crash" {
			rf.Stderr = cv.stderr
		}
		writeJSON(rp, rf)
		// replay the minimised file once in a fresh process: it must fail the same way
		var got *Violation
		tries := 1
		if final.Class == "race" {
			tries = 6
		}
		for _, e := range extraEnv {
			if strings.HasPrefix(e, "VERIF_GCPERCENT=") || e == "VERIF_GCASYNC=1" {
				tries = 10
			}
		}
		for a := 0; a < tries && !sameFailure(got, final); a++ {
			rv := c.execFile(bin, rp, extraEnv, 5*time.Minute)
			got = rv.Violation
			if got == nil {
				got = c.crashViolation(small, rv)
			}
		}
		if !sameFailure(got, final) {
			// fall back to the unminimised trace, which a fresh process already reproduced
			// once: the in-process minimiser is not faithful when the failure depends on
			// state a change keeps outside the trees (package-level caches), and under the
			// race detector a shrunk schedule may not reproduce reliably
			rf.Trace, rf.Violation, rf.Note = tr, want, "not minimised: the minimised trace did not reproduce in a fresh process"
			final = want
			writeJSON(rp, rf)
			got = nil
			for a := 0; a < tries && !sameFailure(got, final); a++ {
				rv := c.execFile(bin, rp, extraEnv, 5*time.Minute)
				got = rv.Violation
				if got == nil {
					got = c.crashViolation(tr, rv)
				}
			}
		}
		if !sameFailure(got, final) {
			c.broken = true
			c.notes = append(c.notes, fmt.Sprintf("replay of %s did not reproduce (%v vs %v)", rp, got, final))
			continue
		}
		reported++
		kfID := ""
		if br.domain != "main" {
			kfID = br.domain
		}
		if kfID != "" && c.kfListed(kfID) != nil {
			if !c.kfPrinted[kfID] {
				c.lines = append(c.lines, fmt.Sprintf("KNOWN-FINDING: property=%s id=%s %s (this run: %s; replay=%s)", c.prop, kfID, c.kfListed(kfID).Text, final.Detail, rp))
				c.kfPrinted[kfID] = true
			} else {
				os.Remove(rp)
			}
			continue
		}
		c.nViol++
		c.lines = append(c.lines, fmt.Sprintf("VIOLATION property=%s replay=%s", c.prop, rp))
		c.logf("  %s", final)
	}
}

func (c *checker) worldCheck() (map[string]any, int, int) {
	bin := c.self
	if c.cfg.binName != "" {
		b, ok := c.build(c.cfg.binName, c.cfg.buildFlags, nil)
		if !ok {
			return nil, 0, 0
		}
		bin = b
	}
	env := c.cfg.env
	N := c.runsFor()
	cov := map[string]any{}
	br := c.runBatch(bin, "main", N, env)
	c.handleViolations(bin, br, env)
	for id, n := range br.knownHits {
		if n > 0 {
			if kf := c.kfListed(id); kf != nil {
				c.lines = append(c.lines, fmt.Sprintf("KNOWN-FINDING: property=%s id=%s %s (condition met %d times in this run)", c.prop, id, kf.Text, n))
			}
		}
	}
	batches := []*batchResult{br}
	kfOut := map[string]any{}
	for _, d := range c.cfg.kfDomains {
		if c.kfListed(d) == nil {
			continue
		}
		kb := c.runBatch(bin, d, max(200, N/20), env)
		before := len(c.lines)
		c.handleViolations(bin, kb, env)
		failing := 0
		for _, r := range kb.records {
			if r.Violation != nil {
				failing++
			}
		}
		kfOut[d] = map[string]any{"runs": kb.runs, "failing_runs": failing + len(kb.crashes), "reported_lines": len(c.lines) - before}
		batches = append(batches, kb)
	}
	// determinism self-check: re-execute about 1% of the runs in fresh processes
	c.selfCheck(bin, br, env)

	// thorough tier of C18: collections at statement points inside operations
	pointsInfo := map[string]any{"enabled": false}
	if c.cfg.points && (c.tier == "thorough" || os.Getenv("VERIF_POINTS_QUICK") != "0") {
		pbin, ok, info := c.buildInstrumented(c.cfg.binName+"-points", c.cfg.buildFlags)
		if !ok {
			pointsInfo["fallback"] = "statement points unavailable, step-boundary events only: " + info
			c.logf("statement points unavailable: %s", info)
		} else {
			penv := append(append([]string{}, env...), "VERIF_POINTS=1")
			pb := c.runBatch(pbin, "main", max(200, N/4), penv)
			c.handleViolations(pbin, pb, penv)
			pointsInfo = map[string]any{"enabled": true, "instrumenter": info, "runs": pb.runs, "point_events_fired": pb.events, "points_reached_total": pb.probes["points_reached_total"], "runs_with_points": pb.probes["point_runs"]}
			br.runs += pb.runs
			br.steps += pb.steps
			br.records = append(br.records, pb.records...)
			// supplementary: collections STARTED at statement points on another goroutine
			// while the operation continues (overlap with the concurrent mark phase;
			// non-deterministic timing, findings must reproduce on re-execution)
			aenv := append(append([]string{}, penv...), "VERIF_GCASYNC=1", "VERIF_PROCS=4", "VERIF_GCPERCENT_OFF=1", "VERIF_GROWBIAS=1")
			ab := c.runBatch(pbin, "main", max(200, N/4), aenv)
			c.handleViolations(pbin, ab, aenv)
			pointsInfo["async_collection_batch"] = map[string]any{"runs": ab.runs, "events": ab.events, "note": "not deterministic; confirmation by re-execution (up to 10 attempts)"}
			br.runs += ab.runs
			br.steps += ab.steps
		}
	}
	cov["statement_points"] = pointsInfo

	if c.cfg.alsoPlain {
		saved := c.budget
		c.budget = saved / 2
		pb := c.runBatch(c.self, "main", max(300, N/3), env)
		c.budget = saved
		c.handleViolations(c.self, pb, env)
		cov["plain_build_batch"] = map[string]any{"runs": pb.runs, "steps": pb.steps, "note": "same environment (clobberfree, forced collections) without checkptr instrumentation"}
		br.runs += pb.runs
		br.steps += pb.steps
		br.records = append(br.records, pb.records...)
	}
	if c.cfg.gcStress {
		genv := append(append([]string{}, env...), "VERIF_GCPERCENT=1", "VERIF_PROCS=4")
		saved, savedW := c.budget, c.workers
		c.budget = saved / 2
		c.workers = max(2, savedW/3)
		gb := c.runBatch(c.self, "main", max(200, N/6), genv)
		c.budget, c.workers = saved, savedW
		c.handleViolations(c.self, gb, genv)
		cov["background_collector_batch"] = map[string]any{"runs": gb.runs, "steps": gb.steps, "gc_percent": 1, "gomaxprocs": 4,
			"note": "supplementary and NOT deterministic: the background collector marks concurrently with the operations; a finding counts only if it reproduces on re-execution (up to 10 attempts), otherwise it is listed as inconclusive"}
		br.runs += gb.runs
		br.steps += gb.steps
	}

	// the same property on a 32-bit build: portable (non-assembly) 16-slot routines, 32-bit uint/int
	archInfo := map[string]any{"enabled": false}
	if c.cfg.arch386 == 2 || (c.cfg.arch386 == 1 && c.tier == "thorough") {
		abin, ok := c.build("sim-386", nil, []string{"GOARCH=386"})
		if ok {
			saved := c.budget
			c.budget = saved / 3
			ab := c.runBatch(abin, "main", max(300, N/10), env)
			c.budget = saved
			c.handleViolations(abin, ab, env)
			archInfo = map[string]any{"enabled": true, "goarch": "386", "runs": ab.runs, "steps": ab.steps, "tree_instantiations": ab.kinds}
			br.runs += ab.runs
			br.steps += ab.steps
			br.records = append(br.records, ab.records...)
		}
	}
	cov["goarch_386_batch"] = archInfo

	distinct := map[uint64]bool{}
	nontrivial := 0
	for _, r := range br.records {
		if !distinct[r.TraceHash] {
			distinct[r.TraceHash] = true
			if r.NonTrivial {
				nontrivial++
			}
		}
	}
	wall := time.Since(c.start).Seconds()
	cov["evaluations"] = br.runs
	cov["distinct_nontrivial"] = nontrivial
	cov["rule"] = "one evaluation = one seeded simulated run (explicit trace of tree operations and environment events, executed against the real library with the property's oracles evaluated step by step); counted in distinct_nontrivial when its trace hash is unique in this batch AND at least one step changed the stored content"
	var samples []any
	for _, s := range br.samples {
		samples = append(samples, s)
	}
	cov["samples"] = samples
	cov["steps_logical_time"] = br.steps
	cov["simulated_time_note"] = "the library reads no clock; simulated time is the step count"
	cov["runs_per_hour"] = int(float64(br.runs) / br.wall.Seconds() * 3600)
	cov["seeds_per_hour"] = int(float64(br.runs) / br.wall.Seconds() * 3600)
	cov["operations"] = br.ops
	cov["environment_events_fired"] = br.events
	cov["probes"] = br.probes
	cov["steps_skipped_outside_domain"] = br.skipped
	cov["runs_aborted_by_upstream_failure"] = br.upstream
	cov["tree_instantiations"] = br.kinds
	cov["distinct_structural_shapes"] = len(br.shapes)
	cov["distinct_shape_and_class_states"] = len(br.states)
	cov["known_finding_batches"] = kfOut
	cov["known_finding_conditions_met"] = br.knownHits
	cov["workers"] = c.workers
	cov["hook_tags"] = hookTags()
	cov["real_vs_stub"] = map[string]any{
		"real": []string{"all go-art code incl. amd64 assembly", "sync.Pool node pool", "Go garbage collector (forced at simulated instants, automatic GC off)", "x/text collator"},
		"stub": []string{},
		"harness_models": []string{"reference ordered map with independent comparators", "structural oracle over the verif-tag walker"},
	}
	cov["fault_kinds_not_applicable"] = "I/O errors, torn writes, message loss, partitions, clock skew, timeouts, allocation failure: the library has no surface for them"
	_ = wall
	return cov, br.runs, nontrivial
}

func (c *checker) selfCheck(bin string, br *batchResult, env []string) {
	if len(br.records) == 0 {
		return
	}
	n := min(max(3, len(br.records)/100), 40)
	step := max(1, len(br.records)/n)
	o := genOptsFor(c.tier, br.domain, runtime.GOARCH)
	checked, t0 := 0, time.Now()
	for i := 0; i < len(br.records) && time.Since(t0) < 10*time.Second; i += step {
		r := br.records[i]
		if r.Violation != nil || r.Steps > 400 {
			continue
		}
		tr := genTrace(c.prop, c.seed, r.Run, o)
		if tr.Hash() != r.TraceHash {
			c.broken = true
			c.notes = append(c.notes, fmt.Sprintf("determinism self-check: run %d generated a different trace in a second process", r.Run))
			return
		}
		cv := c.execChild(bin, tr, env, 2*time.Minute)
		if cv.crashed || cv.timedOut || cv.Violation != nil || cv.Transcript != r.Transcript {
			c.broken = true
			c.notes = append(c.notes, fmt.Sprintf("determinism self-check: run %d gave transcript %x in the worker and %x alone (violation=%v crashed=%v)", r.Run, r.Transcript, cv.Transcript, cv.Violation, cv.crashed))
			return
		}
		checked++
	}
	br.probes["determinism_selfcheck_runs_reexecuted"] = checked
}

func checkMain(args []string) int {
	if len(args) < 2 {
		fmt.Fprintln(os.Stderr, "usage: check <Cxx> quick|thorough | check <Cxx> --replay <file>")
		return 2
	}
	prop := args[0]
	cfg, ok := checkCfgs[prop]
	if !ok {
		fmt.Fprintln(os.Stderr, "no check for property", prop)
		return 2
	}
	self, _ := os.Executable()
	c := &checker{prop: prop, cfg: cfg, self: self, start: time.Now(), known: loadKnownFindings(), kfPrinted: map[string]bool{}, seenSig: map[string]bool{}}
	c.seed = envU64("VERIF_SEED", 1)
	c.workers = envInt("VERIF_WORKERS", runtime.NumCPU())
	c.workDir = filepath.Join(rootDir, ".build", "run-"+prop)
	os.RemoveAll(c.workDir)
	os.MkdirAll(c.workDir, 0o755)
	defer os.RemoveAll(c.workDir)

	if args[1] == "--replay" {
		if len(args) < 3 {
			return 2
		}
		return c.replay(args[2])
	}
	c.tier = args[1]
	if t := os.Getenv("VERIF_TIER"); t == "quick" || t == "thorough" {
		c.tier = t
	}
	if c.tier != "quick" && c.tier != "thorough" {
		fmt.Fprintln(os.Stderr, "tier must be quick or thorough")
		return 2
	}
	if b := envInt("VERIF_BUDGET_S", 0); b > 0 {
		c.budget = time.Duration(b) * time.Second
	} else if c.tier == "thorough" {
		c.budget = 8 * time.Minute
	} else {
		c.budget = 25 * time.Second
	}
	fmt.Printf("VERIF_SEED=%d property=%s tier=%s workers=%d\n", c.seed, prop, c.tier, c.workers)
	if (prop == "C10" && !hookNode) || (prop == "C11" && !hookWalk) {
		fmt.Fprintf(os.Stderr, "NOTE: the hook file this check is built on does not compile against the current tree (simulator built with tags [%s]); no verdict\n", hookTags())
		return 2
	}
	if hookTags() != "verif" {
		c.notes = append(c.notes, fmt.Sprintf("reduced hooks: simulator built with tags [%s]; the oracles that need the missing hook are off", hookTags()))
	}

	var cov map[string]any
	var evals, nontriv int
	switch cfg.engine {
	case "world", "node", "heap":
		cov, evals, nontriv = c.worldCheck()
	case "race":
		cov, evals, nontriv = c.raceCheck()
	}
	_ = evals
	_ = nontriv
	for _, l := range c.lines {
		fmt.Println(l)
	}
	for _, n := range c.notes {
		fmt.Fprintln(os.Stderr, "NOTE:", n)
	}
	for _, n := range c.inconclusive {
		fmt.Fprintln(os.Stderr, "INCONCLUSIVE:", n)
	}
	for _, n := range c.incidents {
		fmt.Fprintln(os.Stderr, "INCIDENT:", n)
	}
	if cov != nil {
		cov["environment_incidents"] = len(c.incidents)
		if len(c.incidents) > 0 {
			cov["environment_incidents_detail"] = c.incidents
		}
	}
	if cov != nil {
		cov["inconclusive"] = len(c.inconclusive)
		if len(c.inconclusive) > 0 {
			cov["inconclusive_detail"] = c.inconclusive
		}
	}
	if cov != nil {
		if n, _ := cov["evaluations"].(int); n < 1 {
			c.broken = true
			c.notes = append(c.notes, "no run was executed")
		}
		if sm, _ := cov["samples"].([]any); len(sm) == 0 && !c.broken {
			c.broken = true
			c.notes = append(c.notes, "no sample trace was collected")
			fmt.Fprintln(os.Stderr, "NOTE: no sample trace was collected")
		}
	}
	if c.nViol == 0 && len(c.inconclusive) > 0 {
		c.broken = true
		c.notes = append(c.notes, "inconclusive results and no confirmed violation")
	}
	if c.broken && c.nViol > 0 {
		// a violation was confirmed and replayed in a fresh process: that verdict
		// stands even though the rest of the run could not be completed
		for _, n := range c.notes {
			fmt.Fprintln(os.Stderr, "NOTE:", n)
		}
		fmt.Fprintln(os.Stderr, "the batch could not be completed, but a violation was confirmed (exit 1)")
		return 1
	}
	if c.broken {
		fmt.Fprintln(os.Stderr, "check could not be completed (exit 2); no verdict")
		return 2
	}
	ev := map[string]any{
		"property_id": prop,
		"tier":        c.tier,
		"seed":        int64(c.seed),
		"level":       "exploration",
		"coverage":    cov,
		"assumptions": assumptionsFor(prop),
		"wall_s":      time.Since(c.start).Seconds(),
		"violations":  c.nViol,
	}
	os.MkdirAll(filepath.Join(rootDir, "evidence"), 0o755)
	if err := writeJSON(filepath.Join(rootDir, "evidence", prop+".json"), ev); err != nil {
		fmt.Fprintln(os.Stderr, "cannot write evidence:", err)
		return 2
	}
	if c.nViol > 0 {
		return 1
	}
	fmt.Printf("OK property=%s runs=%v wall=%.1fs\n", prop, cov["evaluations"], time.Since(c.start).Seconds())
	return 0
}

func assumptionsFor(prop string) []string {
	a := []string{
		"sampling, not proof: a clean batch is evidence only for the histories, schedules and environment events explored",
		"the verif-tag hooks (walker, node handle) are read-only views compiled from /repo's working tree",
		"the reference model's comparators are correct (they never call the library's encoders)",
	}
	switch prop {
	case "C16":
		a = append(a, "ThreadSanitizer's happens-before analysis is the race oracle; code not executed by the runs is not covered")
	case "C17":
		a = append(a, "live heap after two forced collections is measured on the real runtime; verdicts rest on thresholds two orders of magnitude below a per-operation leak, not on exact byte counts")
	case "C18":
		a = append(a, "GODEBUG=clobberfree=1 makes the collector overwrite what it frees; a reference the collector cannot see shows up as damaged content at the next forced collection")
	}
	return a
}

func (c *checker) replay(path string) int {
	var rf ReplayFile
	if err := readJSON(path, &rf); err != nil || rf.Trace == nil {
		fmt.Fprintln(os.Stderr, "cannot read replay file:", err)
		return 2
	}
	switch c.cfg.engine {
	}
	bin := c.self
	if c.cfg.binName != "" {
		b, ok := c.build(c.cfg.binName, c.cfg.buildFlags, nil)
		if !ok {
			return 2
		}
		bin = b
	}
	if rf.Trace.Arch == "386" {
		b, ok := c.build("sim-386", nil, []string{"GOARCH=386"})
		if !ok {
			return 2
		}
		bin = b
	}
	env := c.cfg.env
	tries := 1
	if c.cfg.engine == "race" {
		b, ok := c.build("sim-race", []string{"-race"}, nil)
		if !ok {
			return 2
		}
		bin = b
		env = []string{"VERIF_PROCS=4", "GORACE=halt_on_error=0 log_path=" + filepath.Join(c.workDir, "race-replay")}
		tries = 6
	}
	if len(rf.Trace.Points) > 0 {
		// the trace places events at statement points: it needs the instrumented copy
		name, flags := c.cfg.binName+"-points", c.cfg.buildFlags
		if c.cfg.engine == "race" {
			name, flags = "sim-race-points", []string{"-race"}
			env = append(env, "VERIF_PROCS=1")
		}
		b, ok, info := c.buildInstrumented(name, flags)
		if !ok {
			fmt.Fprintln(os.Stderr, "cannot build the instrumented copy:", info)
			return 2
		}
		bin = b
		env = append(env, "VERIF_POINTS=1")
	}
	rtimeout := 10 * time.Minute
	if rf.Violation != nil && rf.Violation.Class == "hang" {
		rtimeout = 120 * time.Second
	}
	var cv *childVerdict
	for a := 0; a < tries; a++ {
		cv = c.execFile(bin, path, env, rtimeout)
		if cv.Violation != nil || cv.crashed {
			break
		}
	}
	got := cv.Violation
	if got == nil {
		if rf.Violation != nil && rf.Violation.Oracle == "C16-crash-under-schedule" {
			c.raceCrashMine = true
		}
		got = c.crashViolation(rf.Trace, cv)
	}
	if got == nil && cv.timedOut && rf.Violation != nil && rf.Violation.Class == "hang" {
		got = rf.Violation
	}
	if got != nil {
		fmt.Printf("REPRODUCED %s\n", got)
		fmt.Printf("VIOLATION property=%s replay=%s\n", c.prop, path)
		return 1
	}
	fmt.Println("replay: no violation")
	return 0
}

// ---- C16 ----

func (c *checker) raceCheck() (map[string]any, int, int) {
	bin, ok := c.build("sim-race", []string{"-race"}, nil)
	if !ok {
		return nil, 0, 0
	}
	N := c.runsFor()
	cov := map[string]any{}
	type pb struct {
		procs int
		runs  int
	}
	plan := []pb{{1, N}, {4, max(20, N/4)}, {16, max(20, N/8)}}
	var first *batchResult
	byProcs := map[string]any{}
	total := 0
	allOps, allEvents, allProbes, allSkipped, allKinds := map[string]int{}, map[string]int{}, map[string]int{}, map[string]int{}, map[string]int{}
	savedWorkers := c.workers
	for _, p := range plan {
		env := []string{fmt.Sprintf("VERIF_PROCS=%d", p.procs), "GORACE=halt_on_error=0 log_path=" + filepath.Join(c.workDir, fmt.Sprintf("race-p%d", p.procs))}
		c.workers = max(2, savedWorkers/min(p.procs, 4))
		savedBudget := c.budget
		if c.tier == "quick" {
			c.budget = savedBudget * 3 / 5
		}
		if p.procs > 1 {
			c.budget = c.budget / 2
		}
		br := c.runBatch(bin, "main", p.runs, env)
		c.budget = savedBudget
		// a race in the harness itself is my defect, never the library's
		for i := range br.records {
			if v := br.records[i].Violation; v != nil && v.Class == "harness-race" {
				c.broken = true
				c.notes = append(c.notes, fmt.Sprintf("run %d (GOMAXPROCS=%d): race report without a library frame: %s", br.records[i].Run, p.procs, v.Detail))
				br.records[i].Violation = nil
			}
		}
		c.handleViolations(bin, br, env)
		total += br.runs
		addMap(allOps, br.ops)
		addMap(allEvents, br.events)
		addMap(allProbes, br.probes)
		addMap(allSkipped, br.skipped)
		addMap(allKinds, br.kinds)
		byProcs[fmt.Sprint(p.procs)] = map[string]any{"runs": br.runs, "steps": br.steps, "wall_s": br.wall.Seconds()}
		if first == nil {
			first = br
			continue
		}
		// built-in determinism check: the same seeds give the same transcripts at every processor count
		tx := map[int]uint64{}
		for _, r := range first.records {
			tx[r.Run] = r.Transcript
		}
		cmp := 0
		for _, r := range br.records {
			if want, ok := tx[r.Run]; ok && r.Violation == nil {
				cmp++
				if want != r.Transcript {
					c.broken = true
					c.notes = append(c.notes, fmt.Sprintf("run %d: transcript differs between GOMAXPROCS=1 and GOMAXPROCS=%d", r.Run, p.procs))
					break
				}
			}
		}
		allProbes[fmt.Sprintf("transcripts_compared_procs1_vs_procs%d", p.procs)] = cmp
	}
	c.workers = savedWorkers
	// thorough tier: the baton also changes hands at statement points inside operations
	pointsInfo := map[string]any{"enabled": false}
	// (also in the quick tier unless VERIF_POINTS_QUICK=0: windows between two statements
	// of the library — a check-then-act on shared state — are invisible to switches at
	// operation boundaries)
	if c.tier == "thorough" || os.Getenv("VERIF_POINTS_QUICK") != "0" {
		pbin, ok, info := c.buildInstrumented("sim-race-points", []string{"-race"})
		if !ok {
			pointsInfo["fallback"] = "statement points unavailable, operation-boundary switches only: " + info
			c.logf("statement points unavailable: %s", info)
		} else {
			env := []string{"VERIF_PROCS=1", "VERIF_POINTS=1", "GORACE=halt_on_error=0 log_path=" + filepath.Join(c.workDir, "race-points")}
			pb := c.runBatch(pbin, "main", max(40, N/4), env)
			for i := range pb.records {
				if v := pb.records[i].Violation; v != nil && v.Class == "harness-race" {
					c.broken = true
					c.notes = append(c.notes, fmt.Sprintf("run %d (statement points): race report without a library frame: %s", pb.records[i].Run, v.Detail))
					pb.records[i].Violation = nil
				}
			}
			c.handleViolations(pbin, pb, env)
			total += pb.runs
			addMap(allEvents, pb.events)
			addMap(allProbes, pb.probes)
			pointsInfo = map[string]any{"enabled": true, "instrumenter": info, "runs": pb.runs, "yields_inside_operations": pb.events["point_yield"], "runs_with_points": pb.probes["point_runs"]}
		}
	}
	distinct := map[uint64]bool{}
	nontrivial := 0
	for _, r := range first.records {
		if !distinct[r.TraceHash] {
			distinct[r.TraceHash] = true
			if r.NonTrivial {
				nontrivial++
			}
		}
	}
	cov["evaluations"] = total
	cov["distinct_nontrivial"] = nontrivial
	cov["rule"] = "one evaluation = one seeded run under the race detector: G real goroutines execute an explicit trace strictly one at a time in a baton order the detector cannot see (W1: private trees per goroutine through the shared node pool; W2: one shared quiescent tree queried by all); distinct_nontrivial counts unique traces (GOMAXPROCS=1 batch) in which at least one goroutine changed a tree"
	var samples []any
	for _, s := range first.samples {
		samples = append(samples, s)
	}
	cov["samples"] = samples
	cov["steps_logical_time"] = first.steps
	cov["runs_per_hour"] = int(float64(first.runs) / first.wall.Seconds() * 3600)
	cov["by_gomaxprocs"] = byProcs
	cov["operations"] = allOps
	cov["environment_events_fired"] = allEvents
	cov["probes"] = allProbes
	cov["steps_skipped_outside_domain"] = allSkipped
	cov["tree_instantiations"] = allKinds
	cov["race_build"] = true
	cov["statement_points"] = pointsInfo
	cov["hook_tags"] = hookTags()
	cov["real_vs_stub"] = map[string]any{
		"real": []string{"all go-art code incl. amd64 assembly", "sync.Pool", "goroutines (real, one runnable at a time)", "ThreadSanitizer runtime"},
		"stub": []string{},
		"simulated": []string{"the choice of which goroutine runs next (baton order from the trace)"},
	}
	return cov, total, nontrivial
}


// buildInstrumented makes a scratch copy of /repo's current tree with a
// VerifPoint call before every statement, builds the harness against it and
// removes the copy again. Failure is not fatal: the caller falls back to
// step-boundary events.
func (c *checker) buildInstrumented(name string, flags []string) (string, bool, string) {
	inst := filepath.Join(rootDir, ".build", "instrument")
	cmd := exec.Command(goTool(), "build", "-o", inst, ".")
	cmd.Dir = filepath.Join(rootDir, "instrument")
	cmd.Env = goEnv()
	if out, err := cmd.CombinedOutput(); err != nil {
		return "", false, "instrumenter does not build: " + tail(string(out), 500)
	}
	// a fixed path per binary: the Go build cache keys a replaced module's packages by
	// their directory, so a fresh random directory per run adds a full set of cache
	// entries every time (the cache had grown to 105 GB by the end of the build session)
	copyDir := filepath.Join(os.TempDir(), "verif-inst-"+name)
	os.RemoveAll(copyDir)
	if err := os.MkdirAll(copyDir, 0o755); err != nil {
		return "", false, err.Error()
	}
	defer os.RemoveAll(copyDir)
	out, err := exec.Command(inst, repoDir(), copyDir).CombinedOutput()
	if err != nil {
		return "", false, "instrumenting failed: " + tail(string(out), 500)
	}
	summary := strings.TrimSpace(string(out))
	mod := "module verifsim\n\ngo 1.24.0\n\nrequire (\n\tgithub.com/Clement-Jean/go-art v0.0.0\n\tgolang.org/x/text v0.23.0\n)\n\nreplace github.com/Clement-Jean/go-art => " + copyDir + "\n"
	modfile := filepath.Join(rootDir, ".build", name+".mod")
	os.WriteFile(modfile, []byte(mod), 0o644)
	sum, _ := os.ReadFile(filepath.Join(repoDir(), "go.sum"))
	os.WriteFile(filepath.Join(rootDir, ".build", name+".sum"), sum, 0o644)
	bin := filepath.Join(rootDir, ".build", name)
	args := append([]string{"build", "-modfile=" + modfile, "-tags", hookTags() + " verifpoints"}, flags...)
	args = append(args, "-o", bin, ".")
	b := exec.Command(goTool(), args...)
	b.Dir = filepath.Join(rootDir, "sim")
	b.Env = goEnv()
	if out, err := b.CombinedOutput(); err != nil {
		return "", false, "harness does not build against the instrumented copy: " + tail(string(out), 800)
	}
	return bin, true, summary
}
