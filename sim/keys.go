package main

import (
	"bytes"
	"encoding/binary"
	"fmt"
	"math"

	"golang.org/x/text/collate"
	"golang.org/x/text/language"
)

// KeyType describes one tree instantiation's key side.
//
// Harness-canonical key bytes (what traces store, what the reference model
// keys on). They are a serialisation private to the harness and are never
// compared with the library's encodings:
//
//	alpha, collation : the raw key bytes (UTF-8 for collation)
//	unsigned         : 8 bytes big-endian of uint64(v)
//	signed           : 8 bytes big-endian of uint64(int64(v))
//	float32/64       : 8 bytes big-endian of the IEEE bit pattern (zero-extended)
//	compound         : the fields above concatenated, 8 bytes each; an optional
//	                   last string field is the remaining bytes
type KeyType struct {
	Kind   string   `json:"kind"` // alpha unsigned signed float collation compound
	T      string   `json:"t"`    // string bytes runes uint8.. int8.. float32 float64 tuple
	Coll   string   `json:"coll,omitempty"`
	Schema []string `json:"schema,omitempty"` // compound: field types, last may be "str"
	Bits32 bool     `json:"bits32,omitempty"` // uint/int are 32-bit (GOARCH=386 runs)
}

func (kt KeyType) String() string {
	s := kt.Kind + "/" + kt.T
	if kt.Coll != "" {
		s += "/" + kt.Coll
	}
	if len(kt.Schema) > 0 {
		s += fmt.Sprint(kt.Schema)
	}
	return s
}

func (kt KeyType) HasPrefix() bool { return kt.Kind == "alpha" || kt.Kind == "collation" }
func (kt KeyType) IsBytesKey() bool {
	return (kt.Kind == "alpha" || kt.Kind == "collation") && (kt.T == "bytes" || kt.T == "runes")
}

var unsignedTypes = []string{"uint8", "uint16", "uint32", "uint64", "uint"}
var signedTypes = []string{"int8", "int16", "int32", "int64", "int"}
var floatTypes = []string{"float32", "float64"}
var numericTypes = append(append(append([]string{}, unsignedTypes...), signedTypes...), floatTypes...)

func fieldClass(ft string) byte {
	switch ft {
	case "uint8", "uint16", "uint32", "uint64", "uint":
		return 'u'
	case "int8", "int16", "int32", "int64", "int":
		return 'i'
	case "float32", "float64":
		return 'f'
	case "str":
		return 's'
	}
	panic("fieldClass: " + ft)
}

func fieldBits(ft string, bits32 bool) int {
	switch ft {
	case "uint8", "int8":
		return 8
	case "uint16", "int16":
		return 16
	case "uint32", "int32", "float32":
		return 32
	case "uint64", "int64", "float64":
		return 64
	case "uint", "int":
		if bits32 {
			return 32
		}
		return 64
	}
	panic("fieldBits: " + ft)
}

// fieldToFloat interprets a canonical field as a float value.
func fieldToFloat(ft string, u uint64) float64 {
	if ft == "float32" {
		return float64(math.Float32frombits(uint32(u)))
	}
	return math.Float64frombits(u)
}

// fcmp is the declared float order: NaN (all one key) < -Inf < negatives < -0 <
// +0 < positives < +Inf.
func fcmp(a, b float64) int {
	an, bn := a != a, b != b
	if an || bn {
		if an && bn {
			return 0
		}
		if an {
			return -1
		}
		return 1
	}
	if a < b {
		return -1
	}
	if a > b {
		return 1
	}
	sa, sb := math.Signbit(a), math.Signbit(b)
	if sa == sb {
		return 0
	}
	if sa {
		return -1
	}
	return 1
}

func cmpField(ft string, a, b uint64) int {
	switch fieldClass(ft) {
	case 'u':
		if a < b {
			return -1
		}
		if a > b {
			return 1
		}
		return 0
	case 'i':
		x, y := int64(a), int64(b)
		if x < y {
			return -1
		}
		if x > y {
			return 1
		}
		return 0
	case 'f':
		return fcmp(fieldToFloat(ft, a), fieldToFloat(ft, b))
	}
	panic("cmpField")
}

func u64of(b []byte) uint64 {
	if len(b) < 8 {
		var t [8]byte
		copy(t[8-len(b):], b)
		return binary.BigEndian.Uint64(t[:])
	}
	return binary.BigEndian.Uint64(b[:8])
}

func u64bytes(u uint64) []byte {
	b := make([]byte, 8)
	binary.BigEndian.PutUint64(b, u)
	return b
}

const canonNaN64 = 0x7FF8000000000001
const canonNaN32 = 0x7FC00001

func canonField(ft string, u uint64) uint64 {
	switch ft {
	case "float32":
		f := math.Float32frombits(uint32(u))
		if f != f {
			return canonNaN32
		}
		return uint64(uint32(u))
	case "float64":
		f := math.Float64frombits(u)
		if f != f {
			return canonNaN64
		}
	}
	return u
}

// Canon maps a key to the representative of its equality class (all NaNs are
// one key; everything else is itself).
func (kt KeyType) Canon(k []byte) []byte {
	switch kt.Kind {
	case "float":
		return u64bytes(canonField(kt.T, u64of(k)))
	case "compound":
		out := append([]byte{}, k...)
		for i, ft := range kt.Schema {
			if ft == "str" {
				break
			}
			if fieldClass(ft) == 'f' {
				binary.BigEndian.PutUint64(out[8*i:], canonField(ft, u64of(k[8*i:])))
			}
		}
		return out
	}
	return k
}

// Cmp is the oracle comparator of the tree's declared order for every kind but
// collation (which compares sort keys of an independent collator instance).
func (kt KeyType) Cmp(a, b []byte) int {
	switch kt.Kind {
	case "alpha":
		return bytes.Compare(a, b)
	case "unsigned", "signed", "float":
		return cmpField(kt.T, u64of(a), u64of(b))
	case "compound":
		for i, ft := range kt.Schema {
			if ft == "str" {
				return bytes.Compare(a[8*i:], b[8*i:])
			}
			if c := cmpField(ft, u64of(a[8*i:]), u64of(b[8*i:])); c != 0 {
				return c
			}
		}
		return 0
	}
	panic("Cmp on " + kt.Kind)
}

func (kt KeyType) IsNaNKey(k []byte) bool {
	if kt.Kind != "float" {
		return false
	}
	f := fieldToFloat(kt.T, u64of(k))
	return f != f
}

// ---- collators ----

var collNames = []string{"root", "de", "sv", "es-trad", "ja", "th", "numeric", "ignorecase", "ignorediacritics", "ignorewidth", "loose", "force", "de-numeric"}

func newCollator(name string) *collate.Collator {
	switch name {
	case "", "root":
		return collate.New(language.Und)
	case "de":
		return collate.New(language.German)
	case "sv":
		return collate.New(language.Swedish)
	case "es-trad":
		return collate.New(language.MustParse("es-u-co-trad"))
	case "ja":
		return collate.New(language.Japanese)
	case "th":
		return collate.New(language.Thai)
	case "numeric":
		return collate.New(language.Und, collate.Numeric)
	case "de-numeric":
		return collate.New(language.German, collate.Numeric)
	case "ignorecase":
		return collate.New(language.Und, collate.IgnoreCase)
	case "ignorediacritics":
		return collate.New(language.Und, collate.IgnoreDiacritics)
	case "ignorewidth":
		return collate.New(language.Und, collate.IgnoreWidth)
	case "loose":
		return collate.New(language.Und, collate.Loose)
	case "force":
		return collate.New(language.Und, collate.Force)
	}
	panic("unknown collator " + name)
}

// collOracle is the harness's own collator instance; the tree never sees it.
type collOracle struct {
	c   *collate.Collator
	buf collate.Buffer
}

func newCollOracle(name string) *collOracle { return &collOracle{c: newCollator(name)} }

func (o *collOracle) Key(s []byte) []byte {
	o.buf.Reset()
	k := o.c.Key(&o.buf, s)
	return append([]byte{}, k...)
}

func (o *collOracle) Compare(a, b []byte) int { return o.c.Compare(a, b) }

func hexs(b []byte) string { return fmt.Sprintf("%x", b) }
