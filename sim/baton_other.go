//go:build !amd64

package main

import "sync/atomic"

// Only the amd64 build is used under the race detector; elsewhere the baton may
// as well be an ordinary atomic.
func load32(p *int32) int32     { return atomic.LoadInt32(p) }
func store32(p *int32, v int32) { atomic.StoreInt32(p, v) }
