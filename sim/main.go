package main

import (
	"bufio"
	"bytes"
	"encoding/json"
	"flag"
	"fmt"
	"os"
	"os/exec"
	"runtime/debug"
	"runtime"
	"sort"
	"strconv"
	"strings"
	"time"

)

func envU64(name string, def uint64) uint64 {
	if s := os.Getenv(name); s != "" {
		if v, err := strconv.ParseUint(s, 10, 64); err == nil {
			return v
		}
		if v, err := strconv.ParseInt(s, 10, 64); err == nil {
			return uint64(v)
		}
	}
	return def
}

func envInt(name string, def int) int {
	if s := os.Getenv(name); s != "" {
		if v, err := strconv.Atoi(s); err == nil {
			return v
		}
	}
	return def
}

func parseKnown(s string) map[string]bool {
	m := map[string]bool{}
	for _, x := range strings.Split(s, ",") {
		if x = strings.TrimSpace(x); x != "" {
			m[x] = true
		}
	}
	return m
}

// runRecord is what a worker reports per run.
type runRecord struct {
	Run        int        `json:"run"`
	TraceHash  uint64     `json:"th"`
	Transcript uint64     `json:"tx"`
	NonTrivial bool       `json:"nt"`
	Steps      int        `json:"steps"`
	Violation  *Violation `json:"violation,omitempty"`
	Points     []PointAct `json:"points,omitempty"`
}

type workerOut struct {
	Records   []runRecord    `json:"records"`
	Ops       map[string]int `json:"ops"`
	Events    map[string]int `json:"events"`
	Probes    map[string]int `json:"probes"`
	Skipped   map[string]int `json:"skipped"`
	KnownHits map[string]int `json:"known_hits"`
	Kinds     map[string]int `json:"kinds"`
	Upstream  int            `json:"upstream"`
	Steps     int            `json:"steps"`
	Shapes    []uint64       `json:"shapes"`
	States    []uint64       `json:"states"`
	Samples   []*Trace       `json:"samples"`
	Done      bool           `json:"done"`
	NextRun   int            `json:"next_run"`
}

func addMap(dst, src map[string]int) {
	for k, v := range src {
		dst[k] += v
	}
}

func genOptsFor(tier, domain, arch string) genOpts {
	return genOpts{tier: tier, domain: domain, bits32: arch == "386", lim: hookLim, churnBias: os.Getenv("VERIF_POINTS") != "", growBias: os.Getenv("VERIF_GCPERCENT") != "" || os.Getenv("VERIF_GROWBIAS") != ""}
}

func workerMain(args []string) int {
	fs := flag.NewFlagSet("worker", flag.ExitOnError)
	prop := fs.String("prop", "C01", "")
	seed := fs.Uint64("seed", 1, "")
	from := fs.Int("from", 0, "")
	to := fs.Int("to", 100, "")
	stride := fs.Int("stride", 1, "")
	tier := fs.String("tier", "quick", "")
	domain := fs.String("domain", "main", "")
	known := fs.String("known", "", "")
	out := fs.String("out", "", "")
	journal := fs.String("journal", "", "")
	deadline := fs.Int64("deadline", 0, "unix seconds; 0 = none")
	skip := fs.String("skip", "", "run indices to skip (they killed an earlier worker)")
	isolate := fs.Bool("isolate", false, "execute every run in a process of its own")
	fs.Parse(args)
	runtime.GOMAXPROCS(envInt("VERIF_PROCS", 1))
	applyGCStress()
	if *tier == "thorough" {
		secondPassLimit = 20 * time.Minute
	}
	skipSet := map[int]bool{}
	for _, x := range strings.Split(*skip, ",") {
		if n, err := strconv.Atoi(x); err == nil {
			skipSet[n] = true
		}
	}

	kn := parseKnown(*known)
	wo := &workerOut{Ops: map[string]int{}, Events: map[string]int{}, Probes: map[string]int{}, Skipped: map[string]int{}, KnownHits: map[string]int{}, Kinds: map[string]int{}}
	var jf *os.File
	if *journal != "" {
		jf, _ = os.OpenFile(*journal, os.O_CREATE|os.O_WRONLY|os.O_APPEND, 0o644)
	}
	shapeSet := map[uint64]struct{}{}
	stateSet := map[uint64]struct{}{}
	var shortest, longest, withEnv *Trace
	var isoSamples []*Trace
	flush := func(done bool, next int) {
		wo.Done = done
		wo.NextRun = next
		wo.Samples = wo.Samples[:0]
		for _, t := range isoSamples {
			if len(wo.Samples) < 3 {
				wo.Samples = append(wo.Samples, t)
			}
		}
		for _, t := range []*Trace{shortest, withEnv, longest} {
			if t != nil {
				c := *t
				if len(c.Steps) > 60 {
					c.Steps = append([]Step{}, c.Steps[:60]...)
				}
				if len(c.Points) > 12 {
					c.Points = append([]PointAct{}, c.Points[:12]...)
				}
				wo.Samples = append(wo.Samples, &c)
			}
		}
		wo.Shapes = wo.Shapes[:0]
		for h := range shapeSet {
			wo.Shapes = append(wo.Shapes, h)
		}
		sort.Slice(wo.Shapes, func(i, j int) bool { return wo.Shapes[i] < wo.Shapes[j] })
		wo.States = wo.States[:0]
		for h := range stateSet {
			wo.States = append(wo.States, h)
		}
		sort.Slice(wo.States, func(i, j int) bool { return wo.States[i] < wo.States[j] })
		if *out != "" {
			writeJSON(*out, wo)
		}
	}
	o := genOptsFor(*tier, *domain, runtime.GOARCH)
	nviol := 0
	for i := *from; i < *to; i += *stride {
		if *deadline > 0 && time.Now().Unix() >= *deadline {
			flush(false, i)
			return 0
		}
		if skipSet[i] {
			continue
		}
		if len(wo.Records)%256 == 255 {
			flush(false, i)
		}
		if jf != nil {
			fmt.Fprintf(jf, "BEGIN %d\n", i)
		}
		// a run normally takes milliseconds; one that is still going after a long
		// real-time limit is reported to the parent as a suspected hang (the parent
		// re-executes it alone, twice, before saying anything)
		hangLimit := 150 * time.Second
		if *tier == "thorough" {
			hangLimit = 240 * time.Second // long runs, possibly on a loaded machine
		}
		if *prop == "C17" {
			hangLimit = 10 * time.Minute
		}
		if *prop == "C16" {
			hangLimit = 3 * time.Minute // race instrumentation, up to 8 goroutines, two passes
			if *tier == "thorough" {
				hangLimit = 12 * time.Minute
			}
		}
		runIdx := i
		wd := time.AfterFunc(hangLimit, func() {
			if jf != nil {
				fmt.Fprintf(jf, "HANG %d\n", runIdx)
			}
			os.Exit(4)
		})
		defer wd.Stop()
		if *isolate {
			// one process per run: nothing a run leaves behind in package-level state
			// can reach the next one, so a run re-executed alone is the same run
			tmp := fmt.Sprintf("%s.run%d", *out, i)
			cmd := exec.Command(os.Args[0], "worker", "-prop", *prop, "-seed", fmt.Sprint(*seed), "-from", fmt.Sprint(i), "-to", fmt.Sprint(i+1),
				"-stride", "1", "-tier", *tier, "-domain", *domain, "-known", *known, "-out", tmp, "-journal", *journal)
			cmd.Stderr = os.Stderr
			err := cmd.Run()
			var one workerOut
			if err != nil || readJSON(tmp, &one) != nil {
				os.Remove(tmp)
				flush(false, i)
				os.Exit(3) // the parent reads the journal: this run killed its process
			}
			os.Remove(tmp)
			wo.Records = append(wo.Records, one.Records...)
			addMap(wo.Ops, one.Ops)
			addMap(wo.Events, one.Events)
			addMap(wo.Probes, one.Probes)
			addMap(wo.Skipped, one.Skipped)
			addMap(wo.KnownHits, one.KnownHits)
			addMap(wo.Kinds, one.Kinds)
			wo.Upstream += one.Upstream
			wo.Steps += one.Steps
			if len(wo.Samples) < 3 {
				isoSamples = append(isoSamples, one.Samples...)
			}
			wd.Stop()
			continue
		}
		tr := genTrace(*prop, *seed, i, o)
		ex := newExec(tr, kn)
		ex.recordPoints = pointsAvailable && os.Getenv("VERIF_POINTS") != ""
		v := ex.Run()
		if pointsAvailable && os.Getenv("VERIF_POINTS") != "" && v == nil && ex.pointN > 0 && tr.Mode == "" {
			// second pass: the first one counted the statement points this trace
			// reaches; now place collections at seeded ones, inside operations
			pr := NewRNG(mix2(mix2(*seed, hashStr("points/"+*prop)), uint64(i)))
			k := pr.Range(1, 6)
			if os.Getenv("VERIF_GCASYNC") != "" {
				k = pr.Range(6, 24)
			}
			for j := 0; j < k; j++ {
				act := "gc2"
				if os.Getenv("VERIF_GCASYNC") != "" && j%2 == 0 {
					act = "gcasync"
				}
				tr.Points = append(tr.Points, PointAct{Nth: pickPoint(pr, ex.pointIDs, ex.pointN), Act: act})
			}
			if jf != nil {
				pj, _ := json.Marshal(tr.Points)
				fmt.Fprintf(jf, "POINTS %d %s\n", i, pj)
			}
			reached := ex.pointN
			pv, ptx, pst, crashed := secondPass(tr, *known, fmt.Sprint(i))
			if crashed {
				flush(false, i)
				os.Exit(3) // the journal names this run and its points
			}
			v = pv
			ex.tx = ptx
			if pst != nil {
				addMap(ex.st.Events, pst.Events)
			}
			wo.Probes["point_runs"]++
			wo.Probes["points_reached_total"] += reached
		}
		if pointsAvailable && os.Getenv("VERIF_POINTS") != "" && v == nil && tr.Mode == "race" && len(ex.racePoints) > 0 {
			pr := NewRNG(mix2(mix2(*seed, hashStr("points/"+*prop)), uint64(i)))
			k := pr.Range(2, 12)
			for j := 0; j < k; j++ {
				g := pr.Range(1, len(ex.racePoints))
				if n := ex.racePoints[g-1]; n > 0 {
					var occ []pointOcc
					if g-1 < len(ex.racePointOcc) {
						occ = ex.racePointOcc[g-1]
					}
					tr.Points = append(tr.Points, PointAct{G: g, Nth: pickPointOcc(pr, occ, n), Act: "yield"})
				}
			}
			// targeted pairs: a rarely executed statement reached by two goroutines —
			// suspend one right before it, let the other run ahead through its own
			// execution of the same statement (the window of a check-then-act)
			tr.Points = append(tr.Points, pairedYields(pr, ex.racePointOcc, pr.Range(10, 40))...)
			// bursts: suspend one goroutine at a statement and let ANOTHER one run several
			// of its own steps before the first continues (a window that only closes after
			// a sequence of foreign operations: pop-pop-push against a suspended pop, a
			// refill against a suspended check, ...)
			nb := len(tr.Points)
			tr.Points = append(tr.Points, burstYields(pr, ex.racePointOcc, pr.Range(0, 8), nil)...)
			wo.Probes["burst_yields_planned"] += len(tr.Points) - nb
			// shared state: yields and bursts at statements that touch what trees share
			// (package-level variables, atomics, locks) — where a check-then-act window
			// on shared state opens and closes
			nb = len(tr.Points)
			tr.Points = append(tr.Points, burstYields(pr, ex.racePointOcc, pr.Range(4, 12), sharedPoints)...)
			wo.Probes["shared_state_yields_planned"] += len(tr.Points) - nb
			if jf != nil {
				pj, _ := json.Marshal(tr.Points)
				fmt.Fprintf(jf, "POINTS %d %s\n", i, pj)
			}
			pv, ptx, pst, crashed := secondPass(tr, *known, fmt.Sprint(i))
			if crashed {
				flush(false, i)
				os.Exit(3)
			}
			v = pv
			ex.tx = ptx
			if pst != nil {
				addMap(ex.st.Events, pst.Events)
				wo.Probes["second_pass_timeouts"] += pst.Probes["second_pass_timeouts"]
			}
			wo.Probes["point_runs"]++
			wo.Probes["paired_yields_planned"] += len(tr.Points) - k
		}
		rec := runRecord{Run: i, TraceHash: tr.Hash(), Transcript: ex.tx, NonTrivial: ex.st.Mutations > 0, Steps: ex.st.Steps, Violation: v, Points: tr.Points}
		wo.Records = append(wo.Records, rec)
		addMap(wo.Ops, ex.st.Ops)
		addMap(wo.Events, ex.st.Events)
		addMap(wo.Probes, ex.st.Probes)
		addMap(wo.Skipped, ex.st.Skipped)
		addMap(wo.KnownHits, ex.st.KnownHits)
		wo.Upstream += ex.st.Upstream
		wo.Steps += ex.st.Steps
		for _, c := range tr.Trees {
			wo.Kinds[c.Key.Kind+"/"+c.Key.T]++
		}
		for _, h := range ex.st.Shapes {
			if len(shapeSet) < 200000 {
				shapeSet[h] = struct{}{}
			}
		}
		for _, h := range ex.st.States {
			if len(stateSet) < 200000 {
				stateSet[h] = struct{}{}
			}
		}
		if shortest == nil || (len(tr.Steps) < len(shortest.Steps) && len(tr.Steps) >= 3) {
			shortest = tr
		}
		if longest == nil || len(tr.Steps) > len(longest.Steps) {
			longest = tr
		}
		if withEnv == nil && len(tr.Steps) < 60 {
			for _, s := range tr.Steps {
				if s.T < 0 {
					withEnv = tr
					break
				}
			}
		}
		wd.Stop()
		if v != nil {
			nviol++
			if nviol >= 20 {
				flush(false, i+*stride)
				return 0
			}
		}
	}
	flush(true, *to)
	return 0
}

// execMain executes one explicit trace in this (fresh) process.
func execMain(args []string) int {
	fs := flag.NewFlagSet("exec", flag.ExitOnError)
	path := fs.String("trace", "", "")
	known := fs.String("known", "", "")
	verbose := fs.Bool("v", false, "")
	fs.Parse(args)
	runtime.GOMAXPROCS(envInt("VERIF_PROCS", 1))
	applyGCStress()
	var rf ReplayFile
	if err := readJSON(*path, &rf); err != nil || rf.Trace == nil {
		var tr Trace
		if err2 := readJSON(*path, &tr); err2 != nil {
			fmt.Fprintln(os.Stderr, "cannot read trace:", err, err2)
			return 2
		}
		rf.Trace = &tr
	}
	ex := newExec(rf.Trace, parseKnown(*known))
	ex.stepLog = os.Getenv("VERIF_STEPLOG") != ""
	v := ex.Run()
	res := struct {
		Violation  *Violation `json:"violation"`
		Transcript uint64     `json:"tx"`
		Stats      *RunStats  `json:"stats,omitempty"`
	}{v, ex.tx, nil}
	if *verbose {
		res.Stats = ex.st
	}
	b, _ := json.Marshal(res)
	fmt.Println("RESULT " + string(b))
	if v != nil {
		return 3
	}
	return 0
}

func genMain(args []string) int {
	fs := flag.NewFlagSet("gen", flag.ExitOnError)
	prop := fs.String("prop", "C01", "")
	seed := fs.Uint64("seed", 1, "")
	run := fs.Int("run", 0, "")
	tier := fs.String("tier", "quick", "")
	domain := fs.String("domain", "main", "")
	fs.Parse(args)
	tr := genTrace(*prop, *seed, *run, genOptsFor(*tier, *domain, runtime.GOARCH))
	b, _ := json.MarshalIndent(tr, "", " ")
	fmt.Println(string(b))
	return 0
}

func main() {
	if len(os.Args) < 2 {
		fmt.Fprintln(os.Stderr, "usage: sim check|worker|exec|gen ...")
		os.Exit(2)
	}
	var rc int
	switch os.Args[1] {
	case "worker":
		rc = workerMain(os.Args[2:])
	case "exec":
		rc = execMain(os.Args[2:])
	case "gen":
		rc = genMain(os.Args[2:])
	case "check":
		rc = checkMain(os.Args[2:])
	default:
		fmt.Fprintln(os.Stderr, "unknown subcommand", os.Args[1])
		rc = 2
	}
	os.Exit(rc)
}

func readLines(path string) []string {
	f, err := os.Open(path)
	if err != nil {
		return nil
	}
	defer f.Close()
	var out []string
	sc := bufio.NewScanner(f)
	sc.Buffer(make([]byte, 1<<20), 1<<26)
	for sc.Scan() {
		out = append(out, sc.Text())
	}
	return out
}

// pickPoint chooses the ordinal of a statement point reached in the counting
// pass. Half of the time uniformly over everything reached; half of the time a
// statement is chosen uniformly among the DISTINCT statements reached and then
// one of its occurrences — which puts events inside rarely executed code (grow,
// shrink, split, merge paths), where operations have state in flight.
func pickPoint(r *RNG, ids []int32, n int) int {
	if len(ids) == 0 || len(ids) != n || r.Chance(1, 2) {
		return r.Intn(n)
	}
	occ := map[int32][]int32{}
	var distinct []int32
	for i, id := range ids {
		if _, ok := occ[id]; !ok {
			distinct = append(distinct, id)
		}
		occ[id] = append(occ[id], int32(i))
	}
	id := distinct[r.Intn(len(distinct))]
	o := occ[id]
	return int(o[r.Intn(len(o))])
}

// pickPointOcc: like pickPoint, from the bounded per-statement record.
func pickPointOcc(r *RNG, occ []pointOcc, n int) int {
	var distinct []int
	for id := range occ {
		if occ[id].n > 0 {
			distinct = append(distinct, id)
		}
	}
	if len(distinct) == 0 || r.Chance(1, 2) {
		return r.Intn(n)
	}
	o := occ[distinct[r.Intn(len(distinct))]]
	return o.at[r.Intn(len(o.at))].ord
}

// pairedYields plans up to want targeted yields from the counting pass's record:
// a rarely executed statement reached by two goroutines.
func pairedYields(r *RNG, occ [][]pointOcc, want int) []PointAct {
	type where struct{ g, ord, step int }
	maxID := 0
	for g := range occ {
		maxID = max(maxID, len(occ[g]))
	}
	var rare [][]where
	for id := 0; id < maxID; id++ {
		var ws []where
		total, gs := 0, 0
		for g := range occ {
			if id < len(occ[g]) && occ[g][id].n > 0 {
				total += occ[g][id].n
				gs++
				for _, a := range occ[g][id].at {
					ws = append(ws, where{g + 1, a.ord, a.step})
				}
			}
		}
		if gs >= 2 && total <= 200 {
			rare = append(rare, ws)
		}
	}
	var out []PointAct
	for try := 0; try < want*6 && len(out) < want && len(rare) > 0; try++ {
		ws := rare[r.Intn(len(rare))]
		a, b := ws[r.Intn(len(ws))], ws[r.Intn(len(ws))]
		if a.g == b.g || b.step <= a.step {
			continue
		}
		off := 0
		if r.Chance(1, 4) {
			off = 1
		}
		out = append(out, PointAct{G: a.g, Nth: a.ord + off, Act: "yield", To: b.step})
	}
	return out
}

// burstYields plans up to want yields that hand the baton to one foreign
// goroutine for a run of 2..16 of its steps.
func burstYields(r *RNG, occ [][]pointOcc, want int, only []int) []PointAct {
	var out []PointAct
	for try := 0; try < want*4 && len(out) < want && len(occ) > 0; try++ {
		g := r.Intn(len(occ))
		var distinct []int
		if only != nil {
			// restricted to the listed statements; a single step of the other goroutine
			// half of the time, a burst otherwise
			for _, id := range only {
				if id < len(occ[g]) && occ[g][id].n > 0 {
					distinct = append(distinct, id)
				}
			}
		} else {
			for id := range occ[g] {
				if occ[g][id].n > 0 {
					distinct = append(distinct, id)
				}
			}
		}
		if len(distinct) == 0 {
			continue
		}
		o := occ[g][distinct[r.Intn(len(distinct))]]
		a := o.at[r.Intn(len(o.at))]
		// the foreign goroutine: the owner of a step soon after a.step
		h, left := int32(0), pick(r, []int{2, 2, 3, 4, 6, 8, 12, 16})
		if only != nil && r.Chance(1, 2) {
			left = 1
		}
		to := 0
		for k := a.step + 1; k < len(raceOwnerOf); k++ {
			w := raceOwnerOf[k]
			if w == 0 || int(w) == g+1 {
				continue
			}
			if h == 0 {
				if r.Chance(1, 3) {
					continue // not always the very next foreign goroutine
				}
				h = w
			}
			if w == h {
				left--
				to = k
				if left == 0 {
					break
				}
			}
		}
		if to > a.step {
			out = append(out, PointAct{G: g + 1, Nth: a.ord, Act: "yield", To: to})
		}
	}
	return out
}

// secondPass executes a planned trace (with statement-point actions) in a fresh
// process, so that it is exactly what a later replay of the same file executes:
// nothing the counting pass left behind in package-level state can leak into it.
var secondPassLimit = 4 * time.Minute

func secondPass(tr *Trace, known string, tag string) (v *Violation, tx uint64, stats *RunStats, crashed bool) {
	tmp := fmt.Sprintf("%s/verif-pass2-%d-%s.json", os.TempDir(), os.Getpid(), tag)
	writeJSON(tmp, &ReplayFile{Trace: tr})
	defer os.Remove(tmp)
	cmd := exec.Command(os.Args[0], "exec", "-v", "-trace", tmp, "-known", known)
	cmd.Env = os.Environ()
	var so bytes.Buffer
	cmd.Stdout = &so
	cmd.Stderr = os.Stderr
	err := cmd.Start()
	if err == nil {
		done := make(chan error, 1)
		go func() { done <- cmd.Wait() }()
		select {
		case err = <-done:
		case <-time.After(secondPassLimit):
			cmd.Process.Kill() // never leave a spinning child behind
			<-done
			return nil, 0, &RunStats{Probes: map[string]int{"second_pass_timeouts": 1}}, false
		}
	}
	for _, ln := range strings.Split(so.String(), "\n") {
		if strings.HasPrefix(ln, "RESULT ") {
			var res struct {
				Violation  *Violation `json:"violation"`
				Transcript uint64     `json:"tx"`
				Stats      *RunStats  `json:"stats"`
			}
			if json.Unmarshal([]byte(strings.TrimPrefix(ln, "RESULT ")), &res) == nil {
				return res.Violation, res.Transcript, res.Stats, false
			}
		}
	}
	_ = err
	return nil, 0, nil, true
}

// applyGCStress turns the background collector on at an aggressive setting
// (VERIF_GCPERCENT). This mode is NOT deterministic — the collector marks
// concurrently with the operations, on its own schedule — and is used only as a
// supplementary batch of C18 whose findings must reproduce on re-execution.
func applyGCStress() {
	if p := envInt("VERIF_GCPERCENT", 0); p > 0 {
		debug.SetGCPercent(p)
		// and one goroutine that keeps a collection cycle in flight all the time
		go func() {
			for {
				runtime.GC()
				runtime.Gosched()
			}
		}()
	}
}
