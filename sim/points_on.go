//go:build verifpoints

package main

import art "github.com/Clement-Jean/go-art"

// Built against an instrumented scratch copy of /repo (see /verif/instrument).
const pointsAvailable = true

func setPointHook(f func(int)) { art.VerifPoint = f }

var pointsInCopy = art.VerifPointCount

// points around statements that touch state shared between trees (see /verif/instrument)
var sharedPoints = art.VerifSharedPoints
