//go:build !verifnonode

package main

import (
	"fmt"
	"os"
	"runtime"

	art "github.com/Clement-Jean/go-art"
)

// ---- C10: a bare inner node driven through its size classes ----
//
// Trace mode "node": Step.T is the handle index, Step.Op one of
//   nadd (K[0]=byte, V=id)  nrm (K[0]=byte)  nrel (release to the pool and start a new node)
// plus the environment events gc1/gc2/churn with T<0. Histories respect the
// node's usage contract (never add a present byte, never remove an absent one,
// stop using a handle once it has collapsed into its last child).

type nodeRef struct {
	h     *art.VerifNodeHandle
	table [256]int // id or -1
	count int
	dead  bool
}

func newNodeRef() *nodeRef {
	n := &nodeRef{h: art.VerifNewNode()}
	for i := range n.table {
		n.table[i] = -1
	}
	return n
}

func scalarSearch(keys []byte, n int, b byte) int {
	for i := 0; i < n; i++ {
		if keys[i] == b {
			return i
		}
	}
	return -1
}

func scalarInsertPos(keys []byte, n int, b byte) int {
	for i := 0; i < n; i++ {
		if keys[i] > b {
			return i
		}
	}
	return -1
}

func (e *Exec) nodeCheckState(step, hi int, n *nodeRef) *Violation {
	h := n.h
	// all 256 probes against the reference table
	for b := 0; b < 256; b++ {
		id, ok := h.Find(byte(b))
		want := n.table[b]
		if ok != (want >= 0) || (ok && id != want) {
			return e.viol("wrong-result", "C10-find", step, "node %d (class %d, %d children): probing byte %#02x gives (id=%d,found=%v), registered child is %d", hi, h.Class(), n.count, b, id, ok, want)
		}
	}
	// enumeration: ascending unsigned byte order, exactly the table
	var want []int
	for b := 0; b < 256; b++ {
		if n.table[b] >= 0 {
			want = append(want, n.table[b])
		}
	}
	got := hChildren(h)
	if hookIter && !intsEqual(got, want) {
		return e.viol("wrong-result", "C10-enumerate", step, "node %d (class %d): children enumerate as %v, ascending byte order is %v", hi, h.Class(), trunc(got), trunc(want))
	}
	back := hChildrenBackward(h)
	for i := range back {
		if len(back) != len(want) || back[i] != want[len(want)-1-i] {
			return e.viol("wrong-result", "C10-enumerate-backward", step, "node %d (class %d): descending enumeration %v is not the reverse of %v", hi, h.Class(), trunc(back), trunc(want))
		}
	}
	if hookIter && len(back) != len(want) {
		return e.viol("wrong-result", "C10-enumerate-backward", step, "node %d (class %d): descending enumeration has %d children, expected %d", hi, h.Class(), len(back), len(want))
	}
	if hookIter && len(want) > 0 {
		if f := hFirst(h); f != want[0] {
			return e.viol("wrong-result", "C10-first", step, "node %d (class %d): first child %d, expected %d", hi, h.Class(), f, want[0])
		}
		if l := hLast(h); l != want[len(want)-1] {
			return e.viol("wrong-result", "C10-last", step, "node %d (class %d): last child %d, expected %d", hi, h.Class(), l, want[len(want)-1])
		}
	}
	if c := h.Class(); c != 0 && n.count > c {
		return e.viol("wrong-result", "C10-capacity", step, "node %d: class %d holds %d children", hi, c, n.count)
	}
	e.st.Probes[fmt.Sprintf("state_class_%d", h.Class())]++
	// raw primitives on the state the library itself produced
	if k4, cnt, ok := h.Keys4(); ok && hookRaw {
		keys := []byte{byte(k4), byte(k4 >> 8), byte(k4 >> 16), byte(k4 >> 24)}
		for b := 0; b < 256; b++ {
			r := rawSearch4(k4, byte(b))
			eff := r
			if r >= cnt {
				eff = -1 // the library's own guard
			}
			if w := scalarSearch(keys, cnt, byte(b)); eff != w {
				return e.viol("wrong-result", "C10-swar-search4", step, "4-slot search: keys=%x occupied=%d probe=%#02x returns %d, scalar scan over the occupied slots gives %d", keys, cnt, b, r, w)
			}
			// insert position: only for bytes not yet registered (Insert never adds a present byte)
			if cnt < 4 && scalarSearch(keys, cnt, byte(b)) == -1 {
				r = rawInsertPos4(k4, byte(b))
				if w := scalarInsertPos(keys, cnt, byte(b)); effPos(r, cnt) != effPos(w, cnt) {
					return e.viol("wrong-result", "C10-swar-insertpos4", step, "4-slot insert position: keys=%x occupied=%d byte=%#02x returns %d, scalar scan gives %d", keys, cnt, b, r, w)
				}
			}
		}
		e.st.Probes["primitive_states_4"]++
	}
	if k16, cnt, ok := h.Keys16(); ok && hookRaw {
		for b := 0; b < 256; b++ {
			r := rawSearch16(&k16, uint8(cnt), byte(b))
			if w := scalarSearch(k16[:], cnt, byte(b)); r != w {
				return e.viol("wrong-result", "C10-simd-search16", step, "16-slot search: keys=%x occupied=%d probe=%#02x returns %d, scalar scan over the occupied slots gives %d", k16, cnt, b, r, w)
			}
			if scalarSearch(k16[:], cnt, byte(b)) != -1 {
				continue
			}
			r = rawInsertPos16(&k16, uint8(cnt), byte(b))
			if w := scalarInsertPos(k16[:], cnt, byte(b)); effPos(r, cnt) != effPos(w, cnt) {
				return e.viol("wrong-result", "C10-simd-insertpos16", step, "16-slot insert position: keys=%x occupied=%d byte=%#02x returns %d, scalar scan gives %d", k16, cnt, b, r, w)
			}
		}
		e.st.Probes["primitive_states_16"]++
	}
	return nil
}

// effPos: where the new byte ends up ("no larger key" means: after the last occupied slot)
func effPos(r, cnt int) int {
	if r == -1 {
		return cnt
	}
	return r
}

func intsEqual(a, b []int) bool {
	if len(a) != len(b) {
		return false
	}
	for i := range a {
		if a[i] != b[i] {
			return false
		}
	}
	return true
}

func trunc(a []int) []int {
	if len(a) > 12 {
		return a[:12]
	}
	return a
}

// sweepPrimitives: seeded direct comparison of the vector routines with a
// scalar scan, with arbitrary bytes in the unoccupied lanes (the 16-slot
// routines mask by the fill count, the 4-slot search is guarded by the caller;
// the 4-slot insert position legitimately relies on cleared unoccupied lanes
// and gets zeros there).
func (e *Exec) sweepPrimitives(step int, seed uint64, rounds int) *Violation {
	if !hookRaw {
		return nil
	}
	r := NewRNG(seed)
	boundary := []byte{0x00, 0x01, 0x7E, 0x7F, 0x80, 0x81, 0xFE, 0xFF}
	for it := 0; it < rounds; it++ {
		cnt := r.Intn(17)
		// sorted distinct occupied keys, as the node maintains them
		var used [256]bool
		var occ []byte
		for len(occ) < cnt {
			var b byte
			if r.Chance(1, 2) {
				b = pick(r, boundary)
			} else {
				b = r.Byte()
			}
			if !used[b] {
				used[b] = true
				occ = append(occ, b)
			}
		}
		sortBytes(occ)
		var k16 [16]byte
		copy(k16[:], occ)
		for i := cnt; i < 16; i++ {
			switch r.Intn(3) {
			case 0:
				k16[i] = r.Byte()
			case 1:
				k16[i] = pick(r, boundary)
			default:
				if cnt > 0 {
					k16[i] = occ[r.Intn(cnt)] // a stale copy of a live key
				}
			}
		}
		probes := append([]byte{}, boundary...)
		for i := 0; i < 24; i++ {
			probes = append(probes, r.Byte())
		}
		probes = append(probes, occ...)
		for _, b := range probes {
			if got, w := rawSearch16(&k16, uint8(cnt), b), scalarSearch(k16[:], cnt, b); got != w {
				return e.viol("wrong-result", "C10-simd-search16", step, "16-slot search (direct): keys=%x occupied=%d probe=%#02x returns %d, scalar scan over the occupied slots gives %d", k16, cnt, b, got, w)
			}
			if scalarSearch(k16[:], cnt, b) != -1 {
				continue // never asked for a registered byte
			}
			if got, w := rawInsertPos16(&k16, uint8(cnt), b), scalarInsertPos(k16[:], cnt, b); effPos(got, cnt) != effPos(w, cnt) {
				return e.viol("wrong-result", "C10-simd-insertpos16", step, "16-slot insert position (direct): keys=%x occupied=%d byte=%#02x returns %d, scalar scan gives %d", k16, cnt, b, got, w)
			}
		}
		if cnt <= 4 {
			var k4 uint32
			for i := 0; i < 4; i++ {
				v := k16[i]
				k4 |= uint32(v) << (8 * uint(i))
			}
			for _, b := range probes {
				got := rawSearch4(k4, b)
				if got >= cnt {
					got = -1
				}
				if w := scalarSearch(k16[:4], cnt, b); got != w {
					return e.viol("wrong-result", "C10-swar-search4", step, "4-slot search (direct, guarded): keys=%x occupied=%d probe=%#02x gives %d, scalar scan gives %d", k16[:4], cnt, b, got, w)
				}
			}
			if cnt < 4 {
				var z uint32
				for i := 0; i < cnt; i++ {
					z |= uint32(occ[i]) << (8 * uint(i))
				}
				for _, b := range probes {
					if scalarSearch(occ, cnt, b) != -1 {
						continue
					}
					if got, w := rawInsertPos4(z, b), scalarInsertPos(occ, cnt, b); effPos(got, cnt) != effPos(w, cnt) {
						return e.viol("wrong-result", "C10-swar-insertpos4", step, "4-slot insert position (direct, cleared lanes): keys=%08x occupied=%d byte=%#02x returns %d, scalar scan gives %d", z, cnt, b, got, w)
					}
				}
			}
		}
		e.st.Probes["primitive_direct_cases"]++
	}
	return nil
}

func sortBytes(b []byte) {
	for i := 1; i < len(b); i++ {
		for j := i; j > 0 && b[j-1] > b[j]; j-- {
			b[j-1], b[j] = b[j], b[j-1]
		}
	}
}

func (e *Exec) runNode() (v *Violation) {
	runtime.GC()
	runtime.GC()
	nH := max(1, e.tr.Gs)
	hs := make([]*nodeRef, nH)
	for i := range hs {
		hs[i] = newNodeRef()
	}
	for i := range e.tr.Steps {
		s := &e.tr.Steps[i]
		e.st.Steps++
		if s.T < 0 {
			if s.Op == "sweep" {
				var sv *Violation
				if msg := guard(func() { sv = e.sweepPrimitives(i, s.V, max(1, s.N)) }); msg != "" {
					return e.viol("panic", "C10-primitive", i, "primitive panicked: %s", msg)
				}
				if sv != nil {
					return sv
				}
				continue
			}
			e.envEvent(s.Op)
			continue
		}
		if s.T >= nH {
			continue
		}
		n := hs[s.T]
		if e.stepLog {
			fmt.Fprintf(os.Stderr, "STEP %d\n", i)
		}
		var sv *Violation
		msg := guard(func() {
			switch s.Op {
			case "nadd":
				if n.dead || len(s.K) != 1 || n.table[s.K[0]] >= 0 {
					e.st.Skipped["node-contract"]++
					return
				}
				before := n.h.Class()
				n.h.Add(s.K[0], int(s.V))
				n.table[s.K[0]] = int(s.V)
				n.count++
				e.st.Mutations++
				e.st.Ops["nadd"]++
				if after := n.h.Class(); after != before {
					e.st.Probes[fmt.Sprintf("grow_%d_to_%d", before, after)]++
				}
			case "nrm":
				// a node never goes below two children while it is a node: removing
				// down to one child collapses it into that child
				if n.dead || len(s.K) != 1 || n.table[s.K[0]] < 0 || n.count <= 1 {
					e.st.Skipped["node-contract"]++
					return
				}
				before := n.h.Class()
				n.h.Remove(s.K[0])
				n.table[s.K[0]] = -1
				n.count--
				e.st.Mutations++
				e.st.Ops["nrm"]++
				if n.h.Collapsed() {
					e.st.Probes["collapsed_into_last_child"]++
					if n.count != 1 {
						sv = e.viol("wrong-result", "C10-collapse", i, "node %d collapsed into a single child while %d children were registered", s.T, n.count)
						return
					}
					// the survivor must be the registered one
					for b := 0; b < 256; b++ {
						if n.table[b] >= 0 && hookIter {
							if id := hFirst(n.h); id != n.table[b] {
								sv = e.viol("wrong-result", "C10-collapse", i, "node %d collapsed into child %d, the remaining registered child is %d", s.T, id, n.table[b])
							}
						}
					}
					n.dead = true
					return
				}
				if after := n.h.Class(); after != before {
					e.st.Probes[fmt.Sprintf("shrink_%d_to_%d", before, after)]++
				}
			case "nrel":
				if !n.dead {
					n.h.Release()
				}
				hs[s.T] = newNodeRef()
				n = hs[s.T]
				e.st.Ops["nrel"]++
				e.st.Probes["released_and_reacquired"]++
			}
			if !n.dead && sv == nil {
				sv = e.nodeCheckState(i, s.T, n)
				// the other handles must be unaffected (recycled nodes do not alias)
				for j, o := range hs {
					if sv == nil && j != s.T && !o.dead && (s.Op == "nrel" || e.st.Mutations%4 == 0) {
						sv = e.nodeCheckState(i, j, o)
					}
				}
			}
		})
		if msg != "" {
			return e.viol("panic", "C10-returns-normally", i, "node %d: %s(%x) panicked: %s", s.T, s.Op, []byte(s.K), msg)
		}
		if sv != nil {
			return sv
		}
		e.note(uint64(i), uint64(n.count), uint64(n.h.Class()))
	}
	return nil
}

// ---- generator ----

func genNodeTrace(seed uint64, run int, o genOpts) *Trace {
	r := NewRNG(mix2(mix2(seed, hashStr("C10/"+o.domain)), uint64(run)))
	tr := &Trace{Prop: "C10", Seed: seed, Run: run, Domain: o.domain, Mode: "node"}
	nH := r.Range(1, 3)
	tr.Gs = nH
	boundary := []byte{0x00, 0x01, 0x7F, 0x80, 0xFE, 0xFF}
	type st struct {
		present []byte
		has     [256]bool
		dead    bool
	}
	hs := make([]*st, nH)
	for i := range hs {
		hs[i] = &st{}
	}
	nextID := uint64(1)
	budget := r.Range(10, 120)
	mode := r.Intn(4) // 0 small/boundary closure, 1 random, 2 sweep up/down, 3 oscillate around thresholds
	if mode >= 2 {
		budget = r.Range(300, 900)
	}
	fullCycle := r.Chance(1, 12)
	if fullCycle {
		// one node filled to all 256 bytes and drained to its last children again: what a
		// counter that cannot hold 256 does on the way down only shows after a full node
		mode, nH, budget = 2, 1, r.Range(540, 700)
		tr.Gs = 1
		hs = hs[:1]
	}
	if o.tier == "thorough" && r.Chance(1, 3) {
		budget *= 2
	}
	target := r.Range(2, 256)
	if fullCycle {
		target = 256
	}
	growing := true
	pickByte := func(h *st, wantPresent bool) (byte, bool) {
		if wantPresent {
			if len(h.present) == 0 {
				return 0, false
			}
			if r.Chance(1, 3) {
				for _, b := range boundary {
					if h.has[b] {
						return b, true
					}
				}
			}
			return h.present[r.Intn(len(h.present))], true
		}
		for try := 0; try < 20; try++ {
			var b byte
			switch {
			case mode == 0:
				b = pick(r, boundary)
			case r.Chance(1, 4):
				b = pick(r, boundary)
			default:
				b = r.Byte()
			}
			if !h.has[b] {
				return b, true
			}
		}
		for b := 0; b < 256; b++ {
			if !h.has[byte(b)] {
				return byte(b), true
			}
		}
		return 0, false
	}
	for len(tr.Steps) < budget {
		if r.Intn(25) == 0 {
			tr.Steps = append(tr.Steps, Step{T: -1, Op: pick(r, []string{"gc1", "gc2", "churn"})})
		}
		if r.Intn(60) == 0 {
			tr.Steps = append(tr.Steps, Step{T: -1, Op: "sweep", V: r.U64(), N: 40})
		}
		hi := r.Intn(nH)
		h := hs[hi]
		if h.dead || (r.Intn(150) == 0 && !fullCycle) {
			tr.Steps = append(tr.Steps, Step{T: hi, Op: "nrel"})
			hs[hi] = &st{}
			continue
		}
		add := r.Chance(1, 2)
		switch mode {
		case 0:
			add = len(h.present) < 2 || (len(h.present) < 6 && r.Chance(3, 5))
		case 2, 3:
			if growing && len(h.present) >= target {
				growing = false
				if mode == 3 {
					target = max(2, len(h.present)-r.Range(1, 6))
				} else if fullCycle {
					target = 2
				} else {
					target = r.Range(2, max(2, len(h.present)-1))
				}
			} else if !growing && len(h.present) <= target {
				growing = true
				if mode == 3 {
					// oscillate around a class boundary without knowing the thresholds
					target = min(256, pick(r, []int{3, 4, 5, 12, 13, 16, 17, 37, 38, 48, 49, 255, 256})+r.Range(0, 2))
				} else {
					target = r.Range(len(h.present)+1, 256)
				}
			}
			add = growing
			if r.Chance(1, 8) && !fullCycle {
				add = !add
			}
		}
		if len(h.present) <= 2 {
			add = true
		}
		if len(h.present) == 256 {
			add = false
		}
		if add {
			b, ok := pickByte(h, false)
			if !ok {
				continue
			}
			tr.Steps = append(tr.Steps, Step{T: hi, Op: "nadd", K: []byte{b}, V: nextID})
			nextID++
			h.has[b] = true
			h.present = append(h.present, b)
		} else {
			b, ok := pickByte(h, true)
			if !ok {
				continue
			}
			tr.Steps = append(tr.Steps, Step{T: hi, Op: "nrm", K: []byte{b}})
			h.has[b] = false
			for i, x := range h.present {
				if x == b {
					h.present = append(h.present[:i], h.present[i+1:]...)
					break
				}
			}
			if len(h.present) == 1 {
				h.dead = true
			}
		}
	}
	return tr
}
