package main
