package main

func (c *checker) heapCheck() (map[string]any, int, int) { c.broken = true; return nil, 0, 0 }
func (c *checker) raceCheck() (map[string]any, int, int) { c.broken = true; return nil, 0, 0 }
func (c *checker) heapReplay(string) int                  { return 2 }
func (c *checker) raceReplay(string, *ReplayFile) int     { return 2 }
func heapWorkerMain([]string) int                         { return 2 }
func raceWorkerMain([]string) int                         { return 2 }
