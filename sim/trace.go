package main

import (
	"encoding/hex"
	"encoding/json"
	"fmt"
	"os"
)

// HexBytes marshals as a hex string so traces stay readable and exact.
type HexBytes []byte

func (h HexBytes) MarshalJSON() ([]byte, error) {
	return json.Marshal(hex.EncodeToString(h))
}

func (h *HexBytes) UnmarshalJSON(b []byte) error {
	var s string
	if err := json.Unmarshal(b, &s); err != nil {
		return err
	}
	d, err := hex.DecodeString(s)
	if err != nil {
		return err
	}
	*h = d
	return nil
}

type TreeCfg struct {
	Key        KeyType `json:"key"`
	Val        string  `json:"val"`
	SpareCodec bool    `json:"spare_codec,omitempty"`
	Codec      string  `json:"codec,omitempty"` // compound: "" = the library's fixed-width encoders concatenated; "own" = the harness's own order-preserving encodings with an escaped string
	Shared     bool    `json:"shared,omitempty"` // C16: built once, then only read, by several goroutines
}

// Step is one scheduled event. T<0 means an environment event.
type Step struct {
	T   int      `json:"t"`
	Op  string   `json:"op"`
	K   HexBytes `json:"k,omitempty"`
	K2  HexBytes `json:"k2,omitempty"`
	N   int      `json:"n,omitempty"`
	V   uint64   `json:"v,omitempty"`
	Lay int      `json:"lay,omitempty"` // caller buffer layout for []byte keys
	Pad int      `json:"pad,omitempty"`
	G   int      `json:"g,omitempty"` // goroutine holding the baton (C16)
}

// Trace is the complete explicit schedule of one run: replay needs nothing else.
type Trace struct {
	Prop   string    `json:"prop"`
	Seed   uint64    `json:"seed"`
	Run    int       `json:"run"`
	Domain string    `json:"domain"` // "main" or a known-finding domain id
	Mode   string    `json:"mode,omitempty"`
	Arch   string    `json:"arch,omitempty"`
	Gs     int       `json:"goroutines,omitempty"`
	Trees  []TreeCfg `json:"trees"`
	Steps  []Step    `json:"steps"`
	// statement-level decisions (thorough tier): n-th VerifPoint reached → action
	Points []PointAct `json:"points,omitempty"`
}

type PointAct struct {
	G   int    `json:"g"`
	Nth int    `json:"nth"`
	Act string `json:"act"` // "gc2" or "yield"
	To  int    `json:"to,omitempty"` // yield: let the owner of step To run ahead through that step
}

type Violation struct {
	Prop   string `json:"prop"`
	Class  string `json:"class"` // wrong-result panic structural caller-memory race heap crash
	Oracle string `json:"oracle"`
	Step   int    `json:"step"`
	Detail string `json:"detail"`
	Known  string `json:"known,omitempty"`
}

func (v *Violation) String() string {
	if v == nil {
		return "<none>"
	}
	return fmt.Sprintf("%s/%s oracle=%s step=%d: %s", v.Prop, v.Class, v.Oracle, v.Step, v.Detail)
}

type ReplayFile struct {
	Violation *Violation `json:"violation"`
	Trace     *Trace     `json:"trace"`
	Note      string     `json:"note,omitempty"`
	Stderr    string     `json:"stderr,omitempty"`
}

func (t *Trace) Hash() uint64 {
	b, _ := json.Marshal(struct {
		T []TreeCfg
		S []Step
		P []PointAct
	}{t.Trees, t.Steps, t.Points})
	h := uint64(0xcbf29ce484222325)
	for _, c := range b {
		h ^= uint64(c)
		h *= 0x100000001b3
	}
	return h
}

func writeJSON(path string, v any) error {
	b, err := json.MarshalIndent(v, "", " ")
	if err != nil {
		return err
	}
	return os.WriteFile(path, append(b, '\n'), 0o644)
}

func readJSON(path string, v any) error {
	b, err := os.ReadFile(path)
	if err != nil {
		return err
	}
	return json.Unmarshal(b, v)
}
