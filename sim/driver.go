package main

import (
	"bytes"
	"encoding/binary"
	"fmt"
	"math"
	"strconv"
	"strings"
	"unsafe"

	art "github.com/Clement-Jean/go-art"
)

// TreeAPI is the uniform, canonical-bytes view the simulator has of any tree
// instantiation. Everything behind it is the real library.
type TreeAPI interface {
	Insert(k []byte, id uint64)
	Search(k []byte) (id uint64, found bool, valOK bool)
	Delete(k []byte) bool
	Min() (k []byte, id uint64, ok bool, valOK bool)
	Max() (k []byte, id uint64, ok bool, valOK bool)
	// Seq obtains ONE sequence value from the tree; the returned function ranges
	// over that same value each time it is called.
	Seq(op string, a, b []byte, n uint) SeqFn
	Size() int
	Dump() *VNode
	ValID(v any) (uint64, bool)
	Buf() *bufTracker
	Buf2(lay int)
	Freeze()
}

type SeqFn func(yield func(k []byte, id uint64, valOK bool) bool)

// ---- caller-owned key buffers ([]byte keys) ----

const (
	layExact = 0 // len == cap
	laySpare = 1 // sub-slice of a larger arena; the spare capacity holds live caller data
	layScan  = 2 // one buffer reused for successive keys (scanner idiom)
)

type pendBuf struct {
	arena []byte
	snap  []byte
}

type bufTracker struct {
	noTrack bool // heap measurements: hand out plain copies, remember nothing
	layout int
	pad    int
	arenas [][]byte
	arenaBytes int
	lastCall [][]byte // the arenas handed out during the call just checked
	pend   []pendBuf
	scan   []byte
}

func (b *bufTracker) mk(k []byte) []byte {
	if b.noTrack {
		return append(make([]byte, 0, len(k)+2), k...)
	}
	var arena, key []byte
	switch b.layout {
	case laySpare:
		pad, fill := b.pad&0xF, b.pad>>4
		if pad <= 0 {
			pad = 3
		}
		arena = make([]byte, len(k)+pad)
		copy(arena, k)
		for i := len(k); i < len(arena); i++ {
			switch fill {
			case 1:
				arena[i] = 0x00 // what make() leaves behind a short key
			case 2:
				arena[i] = 0xFF
			default:
				arena[i] = 0xA5 ^ byte(i*7)
			}
		}
		key = arena[:len(k)]
	case layScan:
		if cap(b.scan) < len(k)+8 {
			ns := make([]byte, 64+2*len(k))
			if b.pad>>4 != 1 {
				for i := range ns {
					ns[i] = 0xC3 ^ byte(i)
				}
			}
			b.scan = ns
		}
		arena = b.scan[:cap(b.scan)]
		copy(arena, k)
		key = arena[:len(k)]
	default:
		arena = make([]byte, len(k))
		copy(arena, k)
		key = arena[:len(k):len(k)]
	}
	b.pend = append(b.pend, pendBuf{arena: arena, snap: append([]byte{}, arena...)})
	if b.layout != layScan {
		// remember the buffer for later scribbling, within a byte budget
		if len(b.arenas) < 1<<14 && b.arenaBytes+len(arena) <= 16<<20 {
			b.arenas = append(b.arenas, arena)
			b.arenaBytes += len(arena)
		}
	}
	return key
}

// check compares every buffer handed to the tree during the last call with its
// snapshot, over its whole capacity.
func (b *bufTracker) check() error {
	b.lastCall = b.lastCall[:0]
	for _, p := range b.pend {
		b.lastCall = append(b.lastCall, p.arena)
	}
	defer func() { b.pend = b.pend[:0] }()
	for _, p := range b.pend {
		if !bytes.Equal(p.arena, p.snap) {
			return fmt.Errorf("caller buffer modified: before=%x after=%x", p.snap, p.arena)
		}
	}
	return nil
}

// scribble overwrites every buffer ever passed to the tree.
func (b *bufTracker) scribble() int {
	n := 0
	for _, a := range b.arenas {
		for i := range a {
			a[i] = ^a[i]
		}
		n++
	}
	if b.scan != nil {
		s := b.scan[:cap(b.scan)]
		for i := range s {
			s[i] = ^s[i]
		}
		n++
	}
	return n
}

// ---- value types ----

type payload struct {
	ID uint64
	S  string
}

type bigVal struct {
	ID  uint64
	P   *payload
	S   string
	Pad [104]byte
}

func valStr(id uint64) string {
	return "val-" + strconv.FormatUint(id, 10) + strings.Repeat("x", int(id%7))
}

type valOps[V any] struct {
	mk    func(uint64) V
	id    func(V) (uint64, bool)
	hasID bool
}

func vU64() valOps[int64] {
	return valOps[int64]{mk: func(id uint64) int64 { return int64(id) }, id: func(v int64) (uint64, bool) { return uint64(v), true }, hasID: true}
}
func vStr() valOps[string] {
	return valOps[string]{mk: valStr, id: func(v string) (uint64, bool) {
		if !strings.HasPrefix(v, "val-") {
			return 0, false
		}
		d := strings.TrimRight(v[4:], "x")
		id, err := strconv.ParseUint(d, 10, 64)
		if err != nil {
			return 0, false
		}
		return id, v == valStr(id)
	}, hasID: true}
}
func vPtr() valOps[*payload] {
	return valOps[*payload]{mk: func(id uint64) *payload { return &payload{ID: id, S: valStr(id)} }, id: func(v *payload) (uint64, bool) {
		if v == nil {
			return 0, false
		}
		return v.ID, v.S == valStr(v.ID)
	}, hasID: true}
}
func vBytes() valOps[[]byte] {
	mk := func(id uint64) []byte {
		b := make([]byte, 8+int(id%5))
		binary.BigEndian.PutUint64(b, id)
		for i := 8; i < len(b); i++ {
			b[i] = byte(id) + byte(i)
		}
		return b
	}
	return valOps[[]byte]{mk: mk, id: func(v []byte) (uint64, bool) {
		if len(v) < 8 {
			return 0, false
		}
		id := binary.BigEndian.Uint64(v)
		return id, bytes.Equal(v, mk(id))
	}, hasID: true}
}
func vEmpty() valOps[struct{}] {
	return valOps[struct{}]{mk: func(uint64) struct{} { return struct{}{} }, id: func(struct{}) (uint64, bool) { return 0, true }, hasID: false}
}
func vBig() valOps[bigVal] {
	mk := func(id uint64) bigVal {
		v := bigVal{ID: id, P: &payload{ID: id ^ 0xABCD, S: valStr(id + 1)}, S: valStr(id)}
		for i := range v.Pad {
			v.Pad[i] = byte(id) ^ byte(i)
		}
		return v
	}
	return valOps[bigVal]{mk: mk, id: func(v bigVal) (uint64, bool) {
		if v.P == nil {
			return v.ID, false
		}
		w := mk(v.ID)
		return v.ID, v.S == w.S && v.Pad == w.Pad && v.P.ID == w.P.ID && v.P.S == w.P.S
	}, hasID: true}
}

// bigFlat has exactly the size of bigVal and no pointer at all: the pair lets
// recycled memory change hands between two pointer layouts of one size.
type bigFlat struct {
	ID  uint64
	Pad [unsafe.Sizeof(bigVal{}) - 8]byte
}

type arrVal struct {
	N    uint64
	Refs [2]*payload // every pointer of the type sits inside an array
}

func vFunc() valOps[func() uint64] {
	return valOps[func() uint64]{mk: func(id uint64) func() uint64 {
		p := &payload{ID: id, S: valStr(id)} // the closure is the only reference to p
		return func() uint64 {
			if p.S != valStr(p.ID) {
				return ^uint64(0)
			}
			return p.ID
		}
	}, id: func(f func() uint64) (uint64, bool) {
		if f == nil {
			return 0, false
		}
		id := f()
		return id, id != ^uint64(0)
	}, hasID: true}
}

func vChan() valOps[chan *payload] {
	return valOps[chan *payload]{mk: func(id uint64) chan *payload {
		c := make(chan *payload, 1)
		c <- &payload{ID: id, S: valStr(id)}
		return c
	}, id: func(c chan *payload) (uint64, bool) {
		if c == nil || len(c) != 1 {
			return 0, false
		}
		p := <-c
		c <- p
		if p == nil {
			return 0, false
		}
		return p.ID, p.S == valStr(p.ID)
	}, hasID: true}
}

func vUPtr() valOps[unsafe.Pointer] {
	return valOps[unsafe.Pointer]{mk: func(id uint64) unsafe.Pointer {
		return unsafe.Pointer(&payload{ID: id, S: valStr(id)})
	}, id: func(u unsafe.Pointer) (uint64, bool) {
		if u == nil {
			return 0, false
		}
		p := (*payload)(u)
		return p.ID, p.S == valStr(p.ID)
	}, hasID: true}
}

func vArr() valOps[arrVal] {
	return valOps[arrVal]{mk: func(id uint64) arrVal {
		return arrVal{N: id, Refs: [2]*payload{{ID: id, S: valStr(id)}, {ID: id + 1, S: valStr(id + 1)}}}
	}, id: func(v arrVal) (uint64, bool) {
		if v.Refs[0] == nil || v.Refs[1] == nil {
			return v.N, false
		}
		return v.N, v.Refs[0].ID == v.N && v.Refs[0].S == valStr(v.N) && v.Refs[1].ID == v.N+1 && v.Refs[1].S == valStr(v.N+1)
	}, hasID: true}
}

func vIface() valOps[any] {
	return valOps[any]{mk: func(id uint64) any { return &payload{ID: id, S: valStr(id)} }, id: func(v any) (uint64, bool) {
		p, ok := v.(*payload)
		if !ok || p == nil {
			return 0, false
		}
		return p.ID, p.S == valStr(p.ID)
	}, hasID: true}
}

func vMap() valOps[map[uint64]*payload] {
	return valOps[map[uint64]*payload]{mk: func(id uint64) map[uint64]*payload {
		return map[uint64]*payload{id: {ID: id, S: valStr(id)}}
	}, id: func(m map[uint64]*payload) (uint64, bool) {
		if len(m) != 1 {
			return 0, false
		}
		for k, p := range m {
			return k, p != nil && p.ID == k && p.S == valStr(k)
		}
		return 0, false
	}, hasID: true}
}

func vBigFlat() valOps[bigFlat] {
	mk := func(id uint64) bigFlat {
		v := bigFlat{ID: id}
		for i := range v.Pad {
			v.Pad[i] = byte(id) ^ byte(i*3)
		}
		return v
	}
	return valOps[bigFlat]{mk: mk, id: func(v bigFlat) (uint64, bool) { return v.ID, v == mk(v.ID) }, hasID: true}
}

// the order matters for C18, which gives the trees of one run consecutive types:
// big/bigflat (one size, two pointer layouts) and i64/ptr/uptr (one size) are neighbours
var valTypes = []string{"i64", "ptr", "uptr", "str", "bytes", "empty", "big", "bigflat", "arr", "func", "chan", "iface", "map"}

func valHasID(vt string) bool { return vt != "empty" }

// ---- generic driver ----

type drv[K any, V any] struct {
	t   art.Tree[K, V]
	mk  func([]byte) K
	un  func(K) []byte
	vo  valOps[V]
	buf *bufTracker
	// the key most recently handed back by the tree, kept as the K value itself:
	// it must still convert to the same bytes when the next key arrives
	lastK    K
	lastConv []byte
	haveLast bool
	frozen   bool
}

// Freeze makes the driver stateless: required before several goroutines use it.
func (d *drv[K, V]) Freeze() { d.frozen = true }

// keyOut converts a key returned by the tree and checks that the previously
// returned key has not changed under the caller's feet in the meantime.
func (d *drv[K, V]) keyOut(k K) ([]byte, bool) {
	if d.frozen {
		return d.un(k), true // shared between goroutines (C16): the driver keeps no state
	}
	ok := true
	if d.haveLast && !bytes.Equal(d.un(d.lastK), d.lastConv) {
		ok = false
	}
	c := d.un(k)
	d.lastK, d.lastConv, d.haveLast = k, c, true
	return c, ok
}

func (d *drv[K, V]) Buf() *bufTracker { return d.buf }

func (d *drv[K, V]) Buf2(lay int) {
	if d.buf != nil {
		d.buf.layout = lay
	}
}

func (d *drv[K, V]) Insert(k []byte, id uint64) { d.t.Insert(d.mk(k), d.vo.mk(id)) }

func (d *drv[K, V]) Search(k []byte) (uint64, bool, bool) {
	v, ok := d.t.Search(d.mk(k))
	if !ok {
		return 0, false, true
	}
	id, good := d.vo.id(v)
	return id, true, good
}

func (d *drv[K, V]) Delete(k []byte) bool { return d.t.Delete(d.mk(k)) }

func (d *drv[K, V]) Min() ([]byte, uint64, bool, bool) {
	k, v, ok := d.t.Minimum()
	if !ok {
		return nil, 0, false, true
	}
	id, good := d.vo.id(v)
	kb, kok := d.keyOut(k)
	return kb, id, true, good && kok
}

func (d *drv[K, V]) Max() ([]byte, uint64, bool, bool) {
	k, v, ok := d.t.Maximum()
	if !ok {
		return nil, 0, false, true
	}
	id, good := d.vo.id(v)
	kb, kok := d.keyOut(k)
	return kb, id, true, good && kok
}

func (d *drv[K, V]) Seq(op string, a, b []byte, n uint) SeqFn {
	var s func(yield func(K, V) bool)
	switch op {
	case "all":
		s = d.t.All()
	case "back":
		s = d.t.Backward()
	case "topk":
		s = d.t.TopK(n)
	case "botk":
		s = d.t.BottomK(n)
	case "range":
		ka := d.mk(a)
		// the scanner idiom has one buffer: the second bound needs its own
		if d.buf != nil && d.buf.layout == layScan {
			d.buf.layout = laySpare
			kb := d.mk(b)
			d.buf.layout = layScan
			s = d.t.Range(ka, kb)
		} else {
			s = d.t.Range(ka, d.mk(b))
		}
	case "prefix":
		s = d.t.Prefix(d.mk(a))
	default:
		panic("Seq: " + op)
	}
	return func(yield func([]byte, uint64, bool) bool) {
		s(func(k K, v V) bool {
			id, good := d.vo.id(v)
			kb, kok := d.keyOut(k)
			return yield(kb, id, good && kok)
		})
	}
}

func (d *drv[K, V]) Size() int { return d.t.Size() }

func (d *drv[K, V]) Dump() *VNode {
	return dumpTree(any(d.t))
}

func (d *drv[K, V]) ValID(v any) (uint64, bool) {
	x, ok := v.(V)
	if !ok {
		return 0, false
	}
	return d.vo.id(x)
}

// ---- instantiation matrix ----

type uintsC interface {
	uint | uint64 | uint32 | uint16 | uint8
}
type intsC interface {
	int | int64 | int32 | int16 | int8
}

func uDrv[K uintsC, V any](vo valOps[V]) TreeAPI {
	return &drv[K, V]{t: art.NewUnsignedBinaryTree[K, V](), vo: vo,
		mk: func(b []byte) K { return K(u64of(b)) },
		un: func(k K) []byte { return u64bytes(uint64(k)) }}
}

func iDrv[K intsC, V any](vo valOps[V]) TreeAPI {
	return &drv[K, V]{t: art.NewSignedBinaryTree[K, V](), vo: vo,
		mk: func(b []byte) K { return K(int64(u64of(b))) },
		un: func(k K) []byte { return u64bytes(uint64(int64(k))) }}
}

func f32Drv[V any](vo valOps[V]) TreeAPI {
	return &drv[float32, V]{t: art.NewFloatBinaryTree[float32, V](), vo: vo,
		mk: func(b []byte) float32 { return math.Float32frombits(uint32(u64of(b))) },
		un: func(k float32) []byte { return u64bytes(uint64(math.Float32bits(k))) }}
}

func f64Drv[V any](vo valOps[V]) TreeAPI {
	return &drv[float64, V]{t: art.NewFloatBinaryTree[float64, V](), vo: vo,
		mk: func(b []byte) float64 { return math.Float64frombits(u64of(b)) },
		un: func(k float64) []byte { return u64bytes(math.Float64bits(k)) }}
}

func clone(b []byte) []byte { return append([]byte{}, b...) }

// substrKeys makes string keys substrings of much larger, freshly built strings
// (a key cut out of a message): a tree that keeps a reference to the key's bytes
// instead of copying them keeps the whole large string alive (C17).
var substrKeys bool

func mkString(b []byte) string {
	if substrKeys {
		big := strings.Repeat("#", 32<<10) + string(b)
		return big[32<<10:]
	}
	return string(b)
}

func alphaStrDrv[V any](vo valOps[V]) TreeAPI {
	return &drv[string, V]{t: art.NewAlphaSortedTree[string, V](), vo: vo,
		mk: mkString,
		un: func(k string) []byte { return []byte(k) }}
}

func alphaBytesDrv[V any](vo valOps[V]) TreeAPI {
	bt := &bufTracker{}
	return &drv[[]byte, V]{t: art.NewAlphaSortedTree[[]byte, V](), vo: vo, buf: bt,
		mk: bt.mk,
		un: func(k []byte) []byte { return clone(k) }}
}

func collStrDrv[V any](coll string, vo valOps[V]) TreeAPI {
	var t art.Tree[string, V]
	if coll == "" || coll == "default" {
		t = art.NewCollationSortedTree[string, V]()
	} else {
		t = art.NewCollationSortedTree[string, V](art.WithCollator[string, V](newCollator(coll)))
	}
	return &drv[string, V]{t: t, vo: vo,
		mk: mkString,
		un: func(k string) []byte { return []byte(k) }}
}

func collBytesDrv[V any](coll string, vo valOps[V]) TreeAPI {
	bt := &bufTracker{}
	var t art.Tree[[]byte, V]
	if coll == "" || coll == "default" {
		t = art.NewCollationSortedTree[[]byte, V]()
	} else {
		t = art.NewCollationSortedTree[[]byte, V](art.WithCollator[[]byte, V](newCollator(coll)))
	}
	return &drv[[]byte, V]{t: t, vo: vo, buf: bt,
		mk: bt.mk,
		un: func(k []byte) []byte { return clone(k) }}
}

func collRunesDrv[V any](vo valOps[V]) TreeAPI {
	// the caller-buffer layouts for rune keys: fresh slice, or one rune buffer
	// reused for successive keys (layScan)
	bt := &bufTracker{}
	var scan []rune
	return &drv[[]rune, V]{t: art.NewCollationSortedTree[[]rune, V](), vo: vo, buf: bt,
		mk: func(b []byte) []rune {
			rs := []rune(string(b))
			if bt.layout == layScan && !bt.noTrack {
				if cap(scan) < len(rs)+4 {
					scan = make([]rune, 32+2*len(rs))
				}
				copy(scan, rs)
				return scan[:len(rs)]
			}
			return rs
		},
		un: func(k []rune) []byte { return []byte(string(k)) }}
}

// ---- compound: generated codec over the library's own fixed-width encoders ----

type tup struct {
	F [4]uint64
	S string
}

type tupCodec struct {
	schema []string
	bits32 bool
	own    bool // own encodings instead of the library's
	zero   bool // Restore decodes the string field without copying (it aliases the bytes it was given)
	spare  bool     // return slices with sentinel-filled spare capacity
	issued [][]byte // every slice handed to the tree (full capacity), when spare
	snaps  [][]byte
	issuedBytes int
}

func encField(ft string, u uint64) []byte {
	var b []byte
	switch ft {
	case "uint8":
		_, b = art.UnsignedBinaryKey[uint8]{}.Transform(uint8(u))
	case "uint16":
		_, b = art.UnsignedBinaryKey[uint16]{}.Transform(uint16(u))
	case "uint32":
		_, b = art.UnsignedBinaryKey[uint32]{}.Transform(uint32(u))
	case "uint64":
		_, b = art.UnsignedBinaryKey[uint64]{}.Transform(u)
	case "uint":
		_, b = art.UnsignedBinaryKey[uint]{}.Transform(uint(u))
	case "int8":
		_, b = art.SignedBinaryKey[int8]{}.Transform(int8(int64(u)))
	case "int16":
		_, b = art.SignedBinaryKey[int16]{}.Transform(int16(int64(u)))
	case "int32":
		_, b = art.SignedBinaryKey[int32]{}.Transform(int32(int64(u)))
	case "int64":
		_, b = art.SignedBinaryKey[int64]{}.Transform(int64(u))
	case "int":
		_, b = art.SignedBinaryKey[int]{}.Transform(int(int64(u)))
	case "float32":
		_, b = art.FloatBinaryKey[float32]{}.Transform(math.Float32frombits(uint32(u)))
	case "float64":
		_, b = art.FloatBinaryKey[float64]{}.Transform(math.Float64frombits(u))
	default:
		panic("encField " + ft)
	}
	return b
}

func decField(ft string, b []byte) uint64 {
	switch ft {
	case "uint8":
		return uint64(art.UnsignedBinaryKey[uint8]{}.Restore(b))
	case "uint16":
		return uint64(art.UnsignedBinaryKey[uint16]{}.Restore(b))
	case "uint32":
		return uint64(art.UnsignedBinaryKey[uint32]{}.Restore(b))
	case "uint64":
		return art.UnsignedBinaryKey[uint64]{}.Restore(b)
	case "uint":
		return uint64(art.UnsignedBinaryKey[uint]{}.Restore(b))
	case "int8":
		return uint64(int64(art.SignedBinaryKey[int8]{}.Restore(b)))
	case "int16":
		return uint64(int64(art.SignedBinaryKey[int16]{}.Restore(b)))
	case "int32":
		return uint64(int64(art.SignedBinaryKey[int32]{}.Restore(b)))
	case "int64":
		return uint64(art.SignedBinaryKey[int64]{}.Restore(b))
	case "int":
		return uint64(int64(art.SignedBinaryKey[int]{}.Restore(b)))
	case "float32":
		return uint64(math.Float32bits(art.FloatBinaryKey[float32]{}.Restore(b)))
	case "float64":
		return math.Float64bits(art.FloatBinaryKey[float64]{}.Restore(b))
	}
	panic("decField " + ft)
}

// ownEnc / ownDec: a user's own injective, order-preserving fixed-width encodings.
func ownEnc(ft string, bits32 bool, u uint64) []byte {
	w := fieldBits(ft, bits32)
	var x uint64
	switch fieldClass(ft) {
	case 'u':
		x = u
	case 'i':
		x = u ^ (1 << uint(w-1))
		if w < 64 {
			x &= (1 << uint(w)) - 1
		}
	case 'f':
		f := fieldToFloat(ft, u)
		b := u
		if w == 32 {
			b &= 0xFFFFFFFF
		}
		switch {
		case f != f:
			x = 0 // every NaN is one key, below everything
		case b>>uint(w-1) != 0:
			x = (^b) + 1
			if w == 32 {
				x = (uint64(^uint32(b))) + 1
			}
		default:
			x = (b | 1<<uint(w-1)) + 1
		}
	}
	out := make([]byte, w/8)
	for i := range out {
		out[len(out)-1-i] = byte(x >> (8 * uint(i)))
	}
	return out
}

func ownDec(ft string, bits32 bool, b []byte) uint64 {
	w := fieldBits(ft, bits32)
	var x uint64
	for _, c := range b {
		x = x<<8 | uint64(c)
	}
	switch fieldClass(ft) {
	case 'u':
		return x
	case 'i':
		x ^= 1 << uint(w-1)
		if w < 64 {
			sh := uint(64 - w)
			x = uint64(int64(x<<sh) >> sh)
		}
		return x
	}
	if x == 0 {
		if w == 32 {
			return canonNaN32
		}
		return canonNaN64
	}
	x--
	if x>>uint(w-1) != 0 {
		return x &^ (1 << uint(w-1))
	}
	if w == 32 {
		return uint64(^uint32(x))
	}
	return ^x
}

func (c *tupCodec) Transform(k tup) ([]byte, []byte) {
	var out []byte
	for i, ft := range c.schema {
		if ft == "str" {
			if c.own {
				// escaped string: 0x00 -> 0x00 0xFF, terminated by 0x00 0x00
				for j := 0; j < len(k.S); j++ {
					out = append(out, k.S[j])
					if k.S[j] == 0 {
						out = append(out, 0xFF)
					}
				}
				out = append(out, 0, 0)
				break
			}
			out = append(out, k.S...)
			out = append(out, 0)
			break
		}
		if c.own {
			out = append(out, ownEnc(ft, c.bits32, k.F[i])...)
		} else if i == 0 {
			// build the key by appending onto what the library's encoder returned for
			// the first field, as a user codec may well do
			out = encField(ft, k.F[i])
		} else {
			out = append(out, encField(ft, k.F[i])...)
		}
	}
	if c.spare {
		full := make([]byte, len(out)+5)
		copy(full, out)
		for i := len(out); i < len(full); i++ {
			full[i] = 0x5A ^ byte(i)
		}
		if len(c.issued) < 1<<14 && c.issuedBytes+len(full) <= 8<<20 {
			c.issued = append(c.issued, full)
			c.snaps = append(c.snaps, clone(full))
			c.issuedBytes += len(full)
		}
		out = full[:len(out)]
	} else {
		out = out[:len(out):len(out)]
	}
	return out, out
}

func (c *tupCodec) Restore(b []byte) tup {
	var k tup
	off := 0
	for i, ft := range c.schema {
		if ft == "str" {
			if c.own {
				var sb []byte
				for j := off; j+1 < len(b); j++ {
					if b[j] == 0 {
						if b[j+1] == 0 {
							break
						}
						sb = append(sb, 0)
						j++
						continue
					}
					sb = append(sb, b[j])
				}
				k.S = string(sb)
				break
			}
			if c.zero && len(b)-1 > off {
				k.S = unsafe.String(&b[off], len(b)-1-off) // zero-copy decoding, as a user codec may do
			} else {
				k.S = string(b[off : len(b)-1])
			}
			break
		}
		w := fieldBits(ft, c.bits32) / 8
		if c.own {
			k.F[i] = ownDec(ft, c.bits32, b[off:off+w])
		} else {
			k.F[i] = decField(ft, b[off:off+w])
		}
		off += w
	}
	return k
}

// checkIssued verifies that nothing the codec handed out has been written to.
func (c *tupCodec) checkIssued() error {
	for i := range c.issued {
		if !bytes.Equal(c.issued[i], c.snaps[i]) {
			return fmt.Errorf("codec-owned slice modified: before=%x after=%x", c.snaps[i], c.issued[i])
		}
	}
	return nil
}

type compoundAPI struct {
	TreeAPI
	codec *tupCodec
}

func tupFromCanon(schema []string, b []byte) tup {
	var k tup
	for i, ft := range schema {
		if ft == "str" {
			k.S = string(b[8*i:])
			break
		}
		k.F[i] = u64of(b[8*i:])
	}
	return k
}

func tupToCanon(schema []string, k tup) []byte {
	var out []byte
	for i, ft := range schema {
		if ft == "str" {
			out = append(out, k.S...)
			break
		}
		out = append(out, u64bytes(k.F[i])...)
	}
	return out
}

func compoundDrv[V any](kt KeyType, spare bool, own bool, zero bool, vo valOps[V]) TreeAPI {
	codec := &tupCodec{schema: kt.Schema, bits32: kt.Bits32, spare: spare, own: own, zero: zero}
	d := &drv[tup, V]{t: art.NewCompoundTree[tup, V](codec), vo: vo,
		mk: func(b []byte) tup { return tupFromCanon(kt.Schema, b) },
		un: func(k tup) []byte { return tupToCanon(kt.Schema, k) }}
	return &compoundAPI{TreeAPI: d, codec: codec}
}

// ---- dispatch ----

func withKey[V any](kt KeyType, spareCodec bool, codec string, vo valOps[V]) TreeAPI {
	switch kt.Kind {
	case "alpha":
		if kt.T == "bytes" {
			return alphaBytesDrv(vo)
		}
		return alphaStrDrv(vo)
	case "unsigned":
		switch kt.T {
		case "uint8":
			return uDrv[uint8](vo)
		case "uint16":
			return uDrv[uint16](vo)
		case "uint32":
			return uDrv[uint32](vo)
		case "uint64":
			return uDrv[uint64](vo)
		case "uint":
			return uDrv[uint](vo)
		}
	case "signed":
		switch kt.T {
		case "int8":
			return iDrv[int8](vo)
		case "int16":
			return iDrv[int16](vo)
		case "int32":
			return iDrv[int32](vo)
		case "int64":
			return iDrv[int64](vo)
		case "int":
			return iDrv[int](vo)
		}
	case "float":
		if kt.T == "float32" {
			return f32Drv(vo)
		}
		return f64Drv(vo)
	case "collation":
		switch kt.T {
		case "string":
			return collStrDrv(kt.Coll, vo)
		case "bytes":
			return collBytesDrv(kt.Coll, vo)
		case "runes":
			return collRunesDrv(vo)
		}
	case "compound":
		return compoundDrv(kt, spareCodec, codec == "own", codec == "zerocopy", vo)
	}
	panic("withKey: bad key type " + kt.String())
}

func newTree(kt KeyType, val string, spareCodec bool, codec string) TreeAPI {
	switch val {
	case "", "i64":
		return withKey(kt, spareCodec, codec, vU64())
	case "str":
		return withKey(kt, spareCodec, codec, vStr())
	case "ptr":
		return withKey(kt, spareCodec, codec, vPtr())
	case "bytes":
		return withKey(kt, spareCodec, codec, vBytes())
	case "empty":
		return withKey(kt, spareCodec, codec, vEmpty())
	case "big":
		return withKey(kt, spareCodec, codec, vBig())
	case "bigflat":
		return withKey(kt, spareCodec, codec, vBigFlat())
	case "arr":
		return withKey(kt, spareCodec, codec, vArr())
	case "func":
		return withKey(kt, spareCodec, codec, vFunc())
	case "chan":
		return withKey(kt, spareCodec, codec, vChan())
	case "uptr":
		return withKey(kt, spareCodec, codec, vUPtr())
	case "iface":
		return withKey(kt, spareCodec, codec, vIface())
	case "map":
		return withKey(kt, spareCodec, codec, vMap())
	}
	panic("newTree: bad value type " + val)
}
