package main

// One integer decides everything: every choice in a run is drawn from one
// splitmix64/xoshiro256** stream seeded from (base seed, property, run index).
// No global state, no clock, no map iteration.

type RNG struct{ s [4]uint64 }

func splitmix(x *uint64) uint64 {
	*x += 0x9E3779B97F4A7C15
	z := *x
	z = (z ^ (z >> 30)) * 0xBF58476D1CE4E5B9
	z = (z ^ (z >> 27)) * 0x94D049BB133111EB
	return z ^ (z >> 31)
}

func mix2(a, b uint64) uint64 {
	x := a ^ (b * 0xD6E8FEB86659FD93)
	return splitmix(&x)
}

func hashStr(s string) uint64 {
	h := uint64(0xcbf29ce484222325)
	for i := 0; i < len(s); i++ {
		h ^= uint64(s[i])
		h *= 0x100000001b3
	}
	return h
}

func NewRNG(seed uint64) *RNG {
	r := &RNG{}
	x := seed
	for i := range r.s {
		r.s[i] = splitmix(&x)
	}
	return r
}

func rotl(x uint64, k uint) uint64 { return (x << k) | (x >> (64 - k)) }

func (r *RNG) U64() uint64 {
	s := &r.s
	res := rotl(s[1]*5, 7) * 9
	t := s[1] << 17
	s[2] ^= s[0]
	s[3] ^= s[1]
	s[1] ^= s[2]
	s[0] ^= s[3]
	s[2] ^= t
	s[3] = rotl(s[3], 45)
	return res
}

// Intn returns a value in [0,n). n must be > 0.
func (r *RNG) Intn(n int) int {
	if n <= 0 {
		panic("Intn: n<=0")
	}
	return int(r.U64() % uint64(n))
}

// Range returns a value in [lo,hi].
func (r *RNG) Range(lo, hi int) int {
	if hi < lo {
		lo, hi = hi, lo
	}
	return lo + r.Intn(hi-lo+1)
}

func (r *RNG) Chance(num, den int) bool { return r.Intn(den) < num }

func (r *RNG) Byte() byte { return byte(r.U64()) }

func pick[T any](r *RNG, xs []T) T { return xs[r.Intn(len(xs))] }

// Weighted picks an index with probability proportional to w[i].
func (r *RNG) Weighted(w []int) int {
	tot := 0
	for _, x := range w {
		tot += x
	}
	if tot <= 0 {
		return 0
	}
	n := r.Intn(tot)
	for i, x := range w {
		if n < x {
			return i
		}
		n -= x
	}
	return len(w) - 1
}
