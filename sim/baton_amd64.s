#include "textflag.h"

// The baton word is read and written only here, in assembly, which the race
// detector does not instrument: handing the baton over creates no
// happens-before edge between goroutines.

// func load32(p *int32) int32
TEXT ·load32(SB),NOSPLIT,$0-12
	MOVQ p+0(FP), AX
	MOVL (AX), AX
	MOVL AX, ret+8(FP)
	RET

// func store32(p *int32, v int32)
TEXT ·store32(SB),NOSPLIT,$0-12
	MOVQ p+0(FP), AX
	MOVL v+8(FP), BX
	XCHGL BX, (AX)
	RET
