package main

import (
	"bytes"
	"fmt"
	"math"
	"math/bits"
	"os"
	"runtime"
	"runtime/debug"
	"strings"

)

// Oracle flags. A check enables only the oracles of its own property, so that
// it reports only violations of its own statement.
type Oracles uint32

const (
	oMap     Oracles = 1 << iota // C01: Insert/Delete/Search results
	oIter                        // C02: All/Backward
	oRange                       // C03
	oPrefix                      // C04
	oExt                         // C05: Min/Max/TopK/BottomK
	oSize                        // C06
	oShape                       // C11
	oDigest                      // C15
	oAbandon                     // C14
	oBuf                         // C13
	oVal                         // C18: deep value/key integrity
	oExact                       // C08/C09: keys come back exactly as inserted (checked wherever keys are yielded)
)

var propOracles = map[string]Oracles{
	"C01": oMap,
	"C02": oIter,
	"C03": oRange,
	"C04": oPrefix,
	"C05": oExt,
	"C06": oSize,
	"C08": oMap | oIter | oExt | oExact,
	"C09": oMap | oIter | oExt | oRange | oExact,
	"C11": oShape,
	"C12": oMap | oIter | oSize | oExt | oRange | oPrefix,
	"C13": oBuf,
	"C14": oAbandon,
	"C15": oDigest,
	"C16": oMap | oIter | oRange | oPrefix | oExt | oSize | oAbandon,
	"C18": oVal | oMap | oIter,
}

type RunStats struct {
	Steps     int            `json:"steps"`
	Ops       map[string]int `json:"ops"`
	Events    map[string]int `json:"events"`
	Probes    map[string]int `json:"probes"`
	Skipped   map[string]int `json:"skipped"`
	Upstream  int            `json:"upstream"`
	Mutations int            `json:"mutations"` // steps that changed the stored set or a value
	Shapes    []uint64       `json:"-"`
	States    []uint64       `json:"-"`
	KnownHits map[string]int `json:"known_hits"`
}

func newRunStats() *RunStats {
	return &RunStats{Ops: map[string]int{}, Events: map[string]int{}, Probes: map[string]int{}, Skipped: map[string]int{}, KnownHits: map[string]int{}}
}

type treeState struct {
	cfg      TreeCfg
	api      TreeAPI
	m        *Model
	noID     bool
	lastHist [4]int
	haveHist bool
	wasEmpty bool // has been emptied by deletion at least once
	deleted  [][]byte
}

type Exec struct {
	tr     *Trace
	prop   string
	or     Oracles
	trees  []*treeState
	st     *RunStats
	known  map[string]bool // known-finding ids that are listed
	lim    int
	dense  bool // evaluate the heavy observation oracles after every step
	garbage [][]byte
	tx      uint64 // transcript hash: every observable result of the run
	stepLog bool
	inRace  bool
	noContent bool // this step's result has no defined content (carved-out input): do not compare it
	// statement points (thorough tier, instrumented copy)
	pointN     int            // points reached so far by this run
	pointActs  map[int]string // n-th point -> action
	pointFired int
	inPoint    bool
	racePoints []int // per goroutine (1..Gs): statement points reached
	racePointOcc [][]pointOcc
	recordPoints bool
	pointIDs     []int32
}

// onPoint is called before every statement of the instrumented library.
func (e *Exec) onPoint(id int) {
	n := e.pointN
	e.pointN++
	if e.recordPoints {
		e.pointIDs = append(e.pointIDs, int32(id))
	}
	if e.inPoint || e.pointActs == nil {
		return
	}
	if act, ok := e.pointActs[n]; ok {
		e.inPoint = true
		switch act {
		case "gc2":
			runtime.GC()
			runtime.GC()
			e.envChurn()
		case "gc1":
			runtime.GC()
		case "gcasync":
			// start a collection on another goroutine and keep executing: the
			// statements that follow overlap the collector's concurrent mark phase
			// (timing not under the simulator's control: findings are re-executed)
			go runtime.GC()
			runtime.Gosched()
		}
		e.pointFired++
		e.st.Events["point_"+act]++
		e.inPoint = false
	}
}

func (e *Exec) note(xs ...uint64) {
	for _, x := range xs {
		e.tx = mix2(e.tx, x)
	}
}

func b2u(b bool) uint64 {
	if b {
		return 1
	}
	return 0
}

func (e *Exec) notePairs(ps []pair) {
	for _, p := range ps {
		e.note(hashBytes(p.k), p.id, b2u(p.vok))
	}
	e.note(uint64(len(ps)))
}

type stepAbort struct{ reason string }

func newExec(tr *Trace, known map[string]bool) *Exec {
	e := &Exec{tr: tr, prop: tr.Prop, or: propOracles[tr.Prop], st: newRunStats(), known: known, lim: hookLim}
	for _, c := range tr.Trees {
		ts := &treeState{cfg: c, api: newTree(c.Key, c.Val, c.SpareCodec, c.Codec), m: newModel(c.Key), noID: !valHasID(c.Val)}
		e.trees = append(e.trees, ts)
	}
	return e
}

func (e *Exec) viol(class, oracle string, step int, format string, a ...any) *Violation {
	return &Violation{Prop: e.prop, Class: class, Oracle: oracle, Step: step, Detail: fmt.Sprintf(format, a...)}
}

// opOracle: which oracle owns the "returns normally" obligation of an op.
func opOracle(op string) Oracles {
	switch op {
	case "ins", "del", "get":
		return oMap
	case "all", "back":
		return oIter
	case "range":
		return oRange
	case "prefix":
		return oPrefix
	case "min", "max", "topk", "botk":
		return oExt
	case "size":
		return oSize
	}
	return 0
}

// kOf decodes the k of TopK/BottomK: negative trace values stand for counts
// that do not fit an int (the statement says "for every n").
func kOf(n int) uint {
	switch n {
	case -1:
		return math.MaxUint
	case -2:
		return uint(1) << (bits.UintSize - 1)
	case -3:
		return math.MaxInt
	}
	if n < 0 {
		return 0
	}
	return uint(n)
}

func isSeqOp(op string) bool {
	switch op {
	case "all", "back", "range", "prefix", "topk", "botk":
		return true
	}
	return false
}

func isReadOnly(op string) bool {
	switch op {
	case "get", "min", "max", "size", "all", "back", "range", "prefix", "topk", "botk":
		return true
	}
	return false
}

type pair struct {
	k   []byte
	id  uint64
	vok bool
}

// collectSeq ranges fully over s.
func collectSeq(s SeqFn) []pair {
	var out []pair
	s(func(k []byte, id uint64, vok bool) bool {
		out = append(out, pair{k, id, vok})
		return true
	})
	return out
}

func pairsEqual(a, b []pair) bool {
	if len(a) != len(b) {
		return false
	}
	for i := range a {
		if !bytes.Equal(a[i].k, b[i].k) || a[i].id != b[i].id || a[i].vok != b[i].vok {
			return false
		}
	}
	return true
}

// compareSeq checks got against the model entries es (already in expected order).
func (e *Exec) compareSeq(ts *treeState, what string, got []pair, es []entry) error {
	if len(got) != len(es) {
		return fmt.Errorf("%s yielded %d pairs, expected %d (got keys %s; expected %s)", what, len(got), len(es), fmtPairs(got, 6), fmtEntries(es, 6))
	}
	for i := range got {
		if !ts.m.keyMatches(got[i].k, &es[i]) {
			return fmt.Errorf("%s element %d: key %x, expected %x", what, i, got[i].k, es[i].orig)
		}
		if !got[i].vok {
			return fmt.Errorf("%s element %d (key %x): value damaged", what, i, got[i].k)
		}
		if !ts.noID && got[i].id != es[i].id {
			return fmt.Errorf("%s element %d (key %x): value id %d, expected %d", what, i, got[i].k, got[i].id, es[i].id)
		}
	}
	return nil
}

func fmtPairs(p []pair, n int) string {
	s := "["
	for i := range p {
		if i >= n {
			s += " …"
			break
		}
		if i > 0 {
			s += " "
		}
		s += hexs(p[i].k)
	}
	return s + "]"
}

func fmtEntries(es []entry, n int) string {
	s := "["
	for i := range es {
		if i >= n {
			s += " …"
			break
		}
		if i > 0 {
			s += " "
		}
		s += hexs(es[i].orig)
	}
	return s + "]"
}

func reversed(es []entry) []entry {
	out := make([]entry, len(es))
	for i := range es {
		out[len(es)-1-i] = es[i]
	}
	return out
}

// guard runs f, converting a Go panic / runtime fault into an error string.
func guard(f func()) (msg string) {
	defer func() {
		if r := recover(); r != nil {
			msg = fmt.Sprint(r)
			if msg == "" {
				msg = "panic with empty message"
			}
		}
	}()
	f()
	return ""
}

func (e *Exec) envEvent(op string) {
	switch op {
	case "gc1":
		runtime.GC()
	case "gc2":
		runtime.GC()
		runtime.GC()
	case "churn":
		e.envChurn()
	}
	e.st.Events[op]++
}

// envChurn: allocate-and-drop garbage in the node and leaf size classes so
// freed slots are handed out again with different contents.
func (e *Exec) envChurn() {
	{
		e.garbage = e.garbage[:0]
		for _, sz := range []int{24, 32, 48, 96, 288, 1152, 4864} {
			for i := 0; i < 24; i++ {
				b := make([]byte, sz)
				for j := range b {
					b[j] = 0xEE
				}
				e.garbage = append(e.garbage, b)
			}
		}
		e.garbage = e.garbage[:0]
	}
}

// Run executes the whole trace. It returns the first violation, or nil.
func (e *Exec) Run() (v *Violation) {
	switch e.tr.Mode {
	case "node":
		return e.runNode()
	case "heap":
		return e.runHeap()
	case "race":
		return e.runRace()
	}
	// every run starts from an empty node pool, whatever ran before in this process
	runtime.GC()
	runtime.GC()
	if pointsAvailable {
		e.pointActs = map[int]string{}
		for _, p := range e.tr.Points {
			e.pointActs[p.Nth] = p.Act
		}
		setPointHook(e.onPoint)
		defer setPointHook(nil)
	}
	hugeKeys := false
	for i := range e.tr.Steps {
		if len(e.tr.Steps[i].K) > 32<<10 {
			hugeKeys = true
		}
	}
	for i := range e.tr.Steps {
		s := &e.tr.Steps[i]
		e.st.Steps++
		if hugeKeys && i%4 == 3 {
			runtime.GC() // automatic collection is off; runs with 64 KiB keys would otherwise pile up gigabytes
		}
		if i%128 == 127 {
			// safety valve, deterministic for a given trace: long runs must not pile up garbage without bound
			var ms runtime.MemStats
			runtime.ReadMemStats(&ms)
			if ms.HeapAlloc > 768<<20 {
				runtime.GC()
				e.st.Events["gc_safety_valve"]++
			}
		}
		if s.T < 0 {
			if s.Op == "scribble" {
				if v := e.scribbleAll(i); v != nil {
					return v
				}
				continue
			}
			e.envEvent(s.Op)
			if s.Op == "gc2" && e.or&oVal != 0 {
				// C18: after the collector ran (and clobbered what it freed), everything stored must read back intact
				for ti, ts := range e.trees {
					if v := e.fullContentCheck(i, ti, ts, "wrong-result", "C18-after-collection", "after a forced collection", true); v != nil {
						return v
					}
				}
				e.st.Probes["readback_after_collection"]++
			}
			continue
		}
		if s.T >= len(e.trees) {
			continue
		}
		if v, stop := e.treeStep(i, s); v != nil || stop {
			return v
		}
	}
	return e.finalSweep()
}

func (e *Exec) scribbleAll(step int) *Violation {
	n := 0
	for _, ts := range e.trees {
		if b := ts.api.Buf(); b != nil {
			n += b.scribble()
		}
	}
	e.st.Events["scribble"]++
	e.st.Probes["buffers_scribbled"] += n
	if e.or&oBuf == 0 {
		return nil
	}
	for ti, ts := range e.trees {
		if ts.api.Buf() == nil {
			continue
		}
		if v := e.fullContentCheck(step, ti, ts, "caller-memory", "C13-retention", "after the caller overwrote every key buffer it had passed", true); v != nil {
			return v
		}
	}
	return nil
}

// fullContentCheck: the tree must equal the reference (Search of every key and
// full forward iteration).
func (e *Exec) fullContentCheck(step, ti int, ts *treeState, class, oracle, when string, withIter bool) *Violation {
	var v *Violation
	msg := guard(func() {
		for i := range ts.m.es {
			en := &ts.m.es[i]
			ts.api.Buf2(layExact)
			id, found, vok := ts.api.Search(en.orig)
			if !found {
				v = e.viol(class, oracle, step, "tree %d: stored key %x not found %s", ti, en.orig, when)
				return
			}
			if !vok || (!ts.noID && id != en.id) {
				v = e.viol(class, oracle, step, "tree %d: key %x has value id %d (intact=%v), expected %d, %s", ti, en.orig, id, vok, en.id, when)
				return
			}
		}
		for _, k := range ts.deleted {
			if _, ok := ts.m.Get(k); ok {
				continue
			}
			ts.api.Buf2(layExact)
			if _, found, _ := ts.api.Search(k); found {
				v = e.viol(class, oracle, step, "tree %d: deleted key %x is found again %s", ti, k, when)
				return
			}
		}
		if !withIter {
			return
		}
		got := collectSeq(ts.api.Seq("all", nil, nil, 0))
		if err := e.compareSeq(ts, "All()", got, ts.m.es); err != nil {
			v = e.viol(class, oracle, step, "tree %d: %v, %s", ti, err, when)
		}
	})
	if v == nil && msg != "" {
		v = e.viol(class, oracle, step, "tree %d: panic while reading the tree back %s: %s", ti, when, msg)
	}
	return v
}

func (e *Exec) idsOf(ts *treeState) []uint64 {
	ids := make([]uint64, len(ts.m.es))
	for i := range ts.m.es {
		ids[i] = ts.m.es[i].id
	}
	return ids
}

// precondition decides whether a step is inside the property's input domain.
// Steps outside are skipped (and counted), in generation and in replay alike,
// so minimisation can never wander out of the domain.
func (e *Exec) precondition(ts *treeState, s *Step) string {
	kt := ts.cfg.Key
	switch s.Op {
	case "ins":
		if kt.Kind == "collation" && ts.m.Conflicts(s.K) {
			return "collator-cannot-tell-apart"
		}
		if kt.Kind == "alpha" && e.tr.Domain == "main" && ts.m.nulRelated(s.K) {
			return "kf-nul-prefix-domain"
		}
	case "range":
		// inputs the library gives no meaning (carved out of C03): the call is still
		// made — caller memory, re-iteration and "changes nothing" apply to it — but
		// its content is not compared with anything ("nocheck:" prefix)
		if kt.Kind == "float" && (kt.IsNaNKey(s.K) || kt.IsNaNKey(s.K2)) {
			return "nocheck:range-nan-bound"
		}
		if kt.Kind == "float" {
			a, b := fieldToFloat(kt.T, u64of(s.K)), fieldToFloat(kt.T, u64of(s.K2))
			if a == 0 && b == 0 && u64of(s.K) != u64of(s.K2) {
				return "nocheck:range-zero-pair"
			}
		}
		if (kt.Kind == "alpha" || kt.Kind == "collation") && len(s.K2) == 0 {
			if ts.m.Len() > 0 {
				p := ts.m.probe(s.K)
				if ts.m.cmp(&p, &ts.m.es[ts.m.Len()-1]) > 0 {
					return "nocheck:range-open-end-start-above-max"
				}
			}
		}
	case "prefix":
		if !kt.HasPrefix() {
			return "prefix-unsupported-kind"
		}
		if kt.Kind == "collation" && !e.collPrefixOK(ts, s.K) {
			// outside C04's domain: the call is still made (caller memory, re-iteration
			// and "changes nothing" apply to it), its content is not compared
			return "nocheck:collation-prefix-contraction-or-ignorable"
		}
	}
	return ""
}

// collPrefixOK implements the C04 precondition for collation trees: for every
// stored key s with HasPrefix(s,p), the primary-level part of Key(p) is a byte
// prefix of Key(s) — "no contraction or ignorable across the boundary" — and no
// stored key WITHOUT the prefix shares... (only the first half is needed: the
// result set is defined by original bytes).
func (e *Exec) collPrefixOK(ts *treeState, p []byte) bool {
	if len(p) == 0 {
		return true
	}
	pk := ts.m.co.Key(p)
	prim := pk
	if i := bytes.Index(pk, []byte{0, 0}); i >= 0 {
		prim = pk[:i]
	}
	for i := range ts.m.es {
		en := &ts.m.es[i]
		if bytes.HasPrefix(en.orig, p) && !bytes.HasPrefix(en.sk, prim) {
			return false
		}
	}
	return true
}

func (e *Exec) treeStep(i int, s *Step) (*Violation, bool) {
	ts := e.trees[s.T]
	e.noContent = false
	if why := e.precondition(ts, s); why != "" {
		e.st.Skipped[why]++
		if !strings.HasPrefix(why, "nocheck:") {
			return nil, false
		}
		e.noContent = true
	}
	e.st.Ops[s.Op]++
	if e.stepLog {
		fmt.Fprintf(os.Stderr, "STEP %d\n", i)
	}
	api := ts.api
	if !(ts.cfg.Shared && e.inRace) {
		api.Buf2(s.Lay)
		if b := api.Buf(); b != nil {
			b.pad = s.Pad
			b.pend = b.pend[:0]
		}
	}
	own := opOracle(s.Op)

	// C15: raw picture before a step that must not change anything
	var digBefore, digNoValBefore []byte
	var idsBefore []uint64
	mustNotChange := false
	if e.or&oDigest != 0 && hookWalk {
		present := false
		if s.Op == "ins" || s.Op == "del" {
			_, present = ts.m.Get(s.K)
		}
		switch {
		case isReadOnly(s.Op):
			mustNotChange = true
		case s.Op == "del" && !present:
			mustNotChange = true
		case s.Op == "ins" && present:
			mustNotChange = true
		}
		if mustNotChange {
			if msg := guard(func() {
				d := api.Dump()
				digBefore = digestOf(d, api.ValID, true)
				digNoValBefore = digestOf(d, api.ValID, false)
				leafIDs(d, api.ValID, &idsBefore)
			}); msg != "" {
				e.st.Upstream++
				return nil, true
			}
		}
	}
	sizeBefore := ts.m.Len()
	var apiSizeBefore int
	if e.or&oSize != 0 {
		if msg := guard(func() { apiSizeBefore = api.Size() }); msg != "" {
			return e.viol("panic", "C06-size", i, "tree %d: Size() panicked: %s", s.T, msg), false
		}
	}

	var v *Violation
	mutated := false
	msg := guard(func() { v, mutated = e.doOp(i, s, ts) })
	if msg != "" {
		if (e.or&own != 0 && !e.noContent) || (isSeqOp(s.Op) && e.or&oAbandon != 0) {
			return e.viol("panic", "returns-normally", i, "tree %d (%s): %s(%x,%x,n=%d) did not return normally: %s", s.T, ts.cfg.Key, s.Op, []byte(s.K), []byte(s.K2), s.N, msg), false
		}
		// not this property's obligation: the run cannot continue meaningfully
		e.st.Upstream++
		return nil, true
	}
	if v != nil {
		return v, false
	}
	if mutated {
		e.st.Mutations++
	}
	// C13: nothing the caller owns may have been written to
	if e.or&oBuf != 0 {
		if b := api.Buf(); b != nil {
			if err := b.check(); err != nil {
				return e.viol("caller-memory", "C13-no-write", i, "tree %d (%s): %s(%x): %v", s.T, ts.cfg.Key, s.Op, []byte(s.K), err), false
			}
		}
		if ca, ok := api.(*compoundAPI); ok && ca.codec.spare {
			if err := ca.codec.checkIssued(); err != nil {
				return e.viol("caller-memory", "C13-no-write", i, "tree %d (%s): %s: %v", s.T, ts.cfg.Key, s.Op, err), false
			}
		}
	} else if b := api.Buf(); b != nil && !(ts.cfg.Shared && e.inRace) {
		b.pend = b.pend[:0]
	}

	// ---- observation oracles after the step ----
	if e.or&oSize != 0 {
		if v := e.checkSize(i, s, ts, sizeBefore, apiSizeBefore); v != nil {
			return v, false
		}
	}
	if e.stepLog {
		fmt.Fprintf(os.Stderr, "OBS %d\n", i)
	}
	heavy := mutated || e.dense
	if ts.m.Len() > 300 && i%8 != 0 && i != len(e.tr.Steps)-1 {
		heavy = false
	}
	if e.or&oIter != 0 && heavy {
		if v := e.checkIter(i, s.T, ts); v != nil {
			return v, false
		}
	}
	if e.or&oExt != 0 && heavy {
		if v := e.checkExtremes(i, s.T, ts); v != nil {
			return v, false
		}
	}
	if e.or&oShape != 0 && hookWalk && (heavy || ts.m.Len() <= 300) {
		before := ts.lastHist
		if v := e.checkShapeStep(i, s, ts, mutated); v != nil {
			return v, false
		}
		if mutated && ts.m.Len() <= 300 {
			// evidence only: which insertion path this step took
			after := ts.lastHist
			ts.lastHist = before
			guard(func() { e.probeTransitions(ts, api.Dump(), s, sizeBefore, false) })
			ts.lastHist = after
		}
	} else if mutated && e.or&oShape == 0 && hookWalk && ts.m.Len() <= 300 {
		// probes only (never a verdict): which structural transitions the run reached
		guard(func() { e.probeTransitions(ts, api.Dump(), s, sizeBefore, true) })
	}
	if mustNotChange {
		if v := e.checkDigest(i, s, ts, digBefore, digNoValBefore, idsBefore); v != nil {
			return v, false
		}
	}
	if e.or&oDigest != 0 && mutated && e.prop == "C15" {
		n := len(e.tr.Steps)
		if n <= 48 || i%max(1, n/8) == 0 || i == n-1 {
			if v := e.twinCheck(i, s.T, true, "wrong-result", "C15-readonly-affected-later-result"); v != nil {
				return v, false
			}
		}
	}
	if ts.m.Len() == 0 && sizeBefore > 0 {
		ts.wasEmpty = true
		e.st.Probes["tree_emptied_by_deletion"]++
	}
	if ts.wasEmpty && s.Op == "ins" && sizeBefore == 0 {
		e.st.Probes["emptied_tree_reused"]++
	}
	return nil, false
}

// doOp performs one API call and checks its direct result against the model
// when the owning oracle is enabled. The model is always advanced.
func (e *Exec) doOp(i int, s *Step, ts *treeState) (*Violation, bool) {
	api, m := ts.api, ts.m
	or := e.or
	switch s.Op {
	case "ins":
		api.Insert(s.K, s.V)
		isNew, _ := m.Put(s.K, s.V)
		if isNew {
			e.st.Probes["insert_new"]++
		} else {
			e.st.Probes["insert_overwrite"]++
		}
		return nil, true
	case "del":
		got := api.Delete(s.K)
		want := m.Del(s.K)
		e.note(uint64(i), b2u(got))
		if want {
			e.st.Probes["delete_present"]++
			if len(ts.deleted) < 512 {
				ts.deleted = append(ts.deleted, clone(s.K))
			}
		} else {
			e.st.Probes["delete_absent"]++
		}
		if or&oMap != 0 && got != want {
			return e.viol("wrong-result", "C01-delete", i, "tree %d (%s): Delete(%x) returned %v, ideal map says %v", s.T, ts.cfg.Key, []byte(s.K), got, want), want
		}
		return nil, want
	case "get":
		id, found, vok := api.Search(s.K)
		wid, wfound := m.Get(s.K)
		e.note(uint64(i), id, b2u(found), b2u(vok))
		if wfound {
			e.st.Probes["search_present"]++
		} else {
			e.st.Probes["search_absent"]++
		}
		if or&(oMap|oVal) != 0 {
			if found != wfound {
				return e.viol("wrong-result", "C01-search", i, "tree %d (%s): Search(%x) found=%v, ideal map says %v", s.T, ts.cfg.Key, []byte(s.K), found, wfound), false
			}
			if found && (!vok || (!ts.noID && id != wid)) {
				return e.viol("wrong-result", "C01-search", i, "tree %d (%s): Search(%x) returned value id %d (intact=%v), expected %d", s.T, ts.cfg.Key, []byte(s.K), id, vok, wid), false
			}
		}
	case "min", "max":
		var k []byte
		var id uint64
		var ok, vok bool
		if s.Op == "min" {
			k, id, ok, vok = api.Min()
		} else {
			k, id, ok, vok = api.Max()
		}
		e.note(uint64(i), hashBytes(k), id, b2u(ok), b2u(vok))
		if or&oExt != 0 {
			if err := e.cmpExtreme(ts, s.Op, k, id, ok, vok); err != nil {
				return e.viol("wrong-result", "C05-"+s.Op, i, "tree %d (%s): %v", s.T, ts.cfg.Key, err), false
			}
		}
	case "size":
		n := api.Size()
		e.note(uint64(i), uint64(n))
		if or&oSize != 0 && n != m.Len() {
			return e.viol("wrong-result", "C06-size", i, "tree %d (%s): Size()=%d, %d keys stored", s.T, ts.cfg.Key, n, m.Len()), false
		}
	case "all", "back", "topk", "botk", "range", "prefix":
		return e.doSeq(i, s, ts), false
	default:
		panic("unknown op " + s.Op)
	}
	return nil, false
}

func (e *Exec) cmpExtreme(ts *treeState, op string, k []byte, id uint64, ok, vok bool) error {
	m := ts.m
	if m.Len() == 0 {
		if ok {
			return fmt.Errorf("%s on an empty tree reported a key %x", op, k)
		}
		return nil
	}
	if !ok {
		return fmt.Errorf("%s reported 'none' but %d keys are stored", op, m.Len())
	}
	en := &m.es[0]
	if op == "max" {
		en = &m.es[m.Len()-1]
	}
	if !m.keyMatches(k, en) {
		return fmt.Errorf("%s returned key %x, expected %x", op, k, en.orig)
	}
	if !vok || (!ts.noID && id != en.id) {
		return fmt.Errorf("%s returned value id %d (intact=%v), expected %d", op, id, vok, en.id)
	}
	return nil
}

// expectedSeq computes what a sequence op must yield, from the model only.
func (e *Exec) expectedSeq(ts *treeState, s *Step) []entry {
	m := ts.m
	switch s.Op {
	case "all":
		return m.es
	case "back":
		return reversed(m.es)
	case "botk":
		n := int(min(kOf(s.N), uint(m.Len())))
		return m.es[:n]
	case "topk":
		n := int(min(kOf(s.N), uint(m.Len())))
		return reversed(m.es)[:n]
	case "range":
		b := []byte(s.K2)
		if len(b) == 0 && (ts.cfg.Key.Kind == "alpha") {
			if m.Len() == 0 {
				return nil
			}
			b = m.es[m.Len()-1].orig
		}
		lo, hi := m.rangeIdx(s.K, b)
		return m.es[lo:hi]
	case "prefix":
		var out []entry
		for i := range m.es {
			if bytes.HasPrefix(m.es[i].orig, s.K) {
				out = append(out, m.es[i])
			}
		}
		return out
	}
	panic("expectedSeq " + s.Op)
}

func (e *Exec) doSeq(i int, s *Step, ts *treeState) *Violation {
	api := ts.api
	seq := api.Seq(s.Op, s.K, s.K2, kOf(s.N))
	// nothing says when a sequence is consumed: between obtaining it and ranging
	// over it the caller may make other read-only calls and obtain other sequences
	// (fresh key buffers, so this is not C13's buffer-reuse scenario)
	if m := ts.m; m.Len() > 0 && !(ts.cfg.Shared && e.inRace) {
		saved := -1
		if b := api.Buf(); b != nil {
			saved = b.layout
			b.layout = layExact
		}
		lo, hi := m.es[0].orig, m.es[m.Len()-1].orig
		api.Search(hi)
		switch s.Op {
		case "range":
			_ = api.Seq("range", lo, m.es[m.Len()/2].orig, 0)
		case "prefix":
			_ = api.Seq("prefix", hi, nil, 0)
		case "topk", "botk":
			_ = api.Seq(s.Op, nil, nil, 1)
		}
		api.Search(lo)
		if b := api.Buf(); b != nil {
			// the decoy buffers are not part of this call's C13 bookkeeping
			n := 1
			if s.Op == "range" {
				n = 2
			}
			if s.Op == "all" || s.Op == "back" || s.Op == "topk" || s.Op == "botk" {
				n = 0
			}
			if len(b.pend) > n {
				b.pend = b.pend[:n]
			}
			b.layout = saved
		}
		e.st.Probes["decoy_calls_before_first_pass"]++
	}
	var full []pair
	if e.or&oVal != 0 && s.N > 0 {
		// C18: the consumer forces a collection (and reuses the freed memory) in the
		// middle of the iteration, while the sequence holds its traversal state
		at := s.N
		seq(func(k []byte, id uint64, vok bool) bool {
			full = append(full, pair{k, id, vok})
			if len(full) == at {
				runtime.GC()
				runtime.GC()
				e.envChurn()
				e.st.Events["gc2_inside_iteration"]++
			}
			return true
		})
	} else {
		full = collectSeq(seq)
	}
	e.note(uint64(i))
	e.notePairs(full)
	own := opOracle(s.Op)
	checkContent := e.or&own != 0
	if ts.cfg.Key.Kind == "collation" && s.Op == "range" {
		checkContent = false // carved out of C03; self-consistency only (C14)
	}
	if e.noContent {
		checkContent = false
	}
	if checkContent {
		want := e.expectedSeq(ts, s)
		what := fmt.Sprintf("%s(%x,%x,n=%d)", s.Op, []byte(s.K), []byte(s.K2), s.N)
		if err := e.compareSeq(ts, what, full, want); err != nil {
			return e.viol("wrong-result", "seq-"+s.Op, i, "tree %d (%s): %v", s.T, ts.cfg.Key, err)
		}
		e.st.Probes[s.Op+"_checked"]++
		if len(want) > 0 {
			e.st.Probes[s.Op+"_nonempty"]++
		}
	}
	if e.or&oAbandon != 0 {
		if v := e.checkAbandon(i, s, ts, seq, full); v != nil {
			return v
		}
	}
	// C13: a returned sequence must not depend on the caller's key buffers any
	// more — overwrite the buffers this call was given, range again, restore them
	if e.or&oBuf != 0 {
		if b := api.Buf(); b != nil && len(b.pend) > 0 {
			if err := b.check(); err != nil {
				return e.viol("caller-memory", "C13-no-write", i, "tree %d (%s): %s(%x,%x): %v", s.T, ts.cfg.Key, s.Op, []byte(s.K), []byte(s.K2), err)
			}
			flip := func() {
				for _, a := range b.lastCall {
					for j := range a {
						a[j] = ^a[j]
					}
				}
			}
			flip()
			again := collectSeq(seq)
			flip()
			e.st.Probes["sequence_reranged_after_buffer_overwrite"]++
			if !pairsEqual(again, full) {
				return e.viol("caller-memory", "C13-sequence-retains-argument", i, "tree %d (%s): the sequence returned by %s(%x,%x) changed after the caller overwrote the key buffers it had passed: %d element(s) %s before, %d %s after", s.T, ts.cfg.Key, s.Op, []byte(s.K), []byte(s.K2), len(full), fmtPairs(full, 5), len(again), fmtPairs(again, 5))
			}
		}
	}
	// C15: read-only calls and no-op updates made from inside the loop body — a
	// history with such calls interleaved between two deliveries of one pass. Nothing
	// they do may reach the pass: same pairs, no fault.
	if e.or&oDigest != 0 && len(full) > 0 && len(full) <= 400 && !(ts.cfg.Shared && e.inRace) {
		var absent []byte
		if s.Op == "range" || s.Op == "prefix" {
			for _, c := range [][]byte{s.K, s.K2} {
				if len(c) > 0 && absent == nil {
					if _, present := ts.m.Get(c); !present && !ts.m.nulRelated(c) {
						absent = c
					}
				}
			}
		}
		var got []pair
		n := 0
		last := full[len(full)-1]
		msg := guard(func() {
			api.Seq(s.Op, s.K, s.K2, kOf(s.N))(func(k []byte, id uint64, vok bool) bool {
				got = append(got, pair{k, id, vok})
				switch (n + i) % 9 {
				case 6, 7, 8:
					// another sequence of the same tree, obtained and partly consumed inside
					// the loop body (every sequence method is read-only, too)
					stop := 1 + (n+i)%3
					api.Seq([]string{"all", "back", "topk"}[(n+i)%9-6], nil, nil, 3)(func([]byte, uint64, bool) bool { stop--; return stop > 0 })
				case 0:
					if vok {
						api.Insert(k, id) // the key just delivered, its own value again
					}
				case 1:
					api.Search(k)
				case 2:
					if absent != nil {
						api.Delete(absent)
					} else {
						api.Size()
					}
				case 3:
					api.Min()
					api.Max()
				case 4:
					if last.vok {
						api.Insert(last.k, last.id) // a key the pass has not reached yet
					}
				case 5:
					api.Search(last.k)
				}
				n++
				return true
			})
		})
		e.st.Probes["noop_calls_inside_iteration"] += n
		if msg != "" {
			return e.viol("panic", "C15-noop-inside-iteration", i, "tree %d (%s): %s(%x,%x): a pass whose loop body makes read-only calls and re-inserts present keys with their own values did not return normally after %d element(s): %s", s.T, ts.cfg.Key, s.Op, []byte(s.K), []byte(s.K2), len(got), msg)
		}
		if !pairsEqual(got, full) {
			return e.viol("wrong-result", "C15-noop-inside-iteration", i, "tree %d (%s): %s(%x,%x): a pass whose loop body makes read-only calls and re-inserts present keys with their own values yielded %d element(s) %s; the undisturbed pass yielded %d %s", s.T, ts.cfg.Key, s.Op, []byte(s.K), []byte(s.K2), len(got), fmtPairs(got, 5), len(full), fmtPairs(full, 5))
		}
	}
	return nil
}

// checkAbandon is the C14 oracle: stop anywhere without fault or further
// callbacks; range over the same sequence value again and get the full result.
func (e *Exec) checkAbandon(i int, s *Step, ts *treeState, seq SeqFn, full []pair) *Violation {
	n := len(full)
	stops := []int{0, 1, n / 2, n - 1, n}
	if s.N >= 0 && isSeqOp(s.Op) && s.Op != "topk" && s.Op != "botk" {
		stops = append(stops, s.N)
	}
	seen := map[int]bool{}
	for _, stop := range stops {
		if stop < 0 || stop > n || seen[stop] {
			continue
		}
		seen[stop] = true
		var part []pair
		after := 0
		stopped := false
		seq(func(k []byte, id uint64, vok bool) bool {
			if stopped {
				after++
				return false
			}
			part = append(part, pair{k, id, vok})
			if len(part) > stop {
				stopped = true
				return false
			}
			return true
		})
		e.st.Probes["abandon_passes"]++
		if after > 0 {
			return e.viol("wrong-result", "C14-callback-after-stop", i, "tree %d (%s): %s called back %d more time(s) after the consumer returned false at element %d", s.T, ts.cfg.Key, s.Op, after, stop)
		}
		wantLen := min(stop+1, n)
		if !pairsEqual(part, full[:wantLen]) {
			return e.viol("wrong-result", "C14-partial-pass", i, "tree %d (%s): %s stopped at element %d delivered %d element(s) %s, the first complete pass had %d starting %s", s.T, ts.cfg.Key, s.Op, stop, len(part), fmtPairs(part, 5), n, fmtPairs(full, 5))
		}
		// the same sequence value, ranged again in full
		again := collectSeq(seq)
		if !pairsEqual(again, full) {
			return e.viol("wrong-result", "C14-reiterate", i, "tree %d (%s): ranging again over the same %s(%x,%x,n=%d) sequence yielded %d element(s) %s; the first complete pass yielded %d %s", s.T, ts.cfg.Key, s.Op, []byte(s.K), []byte(s.K2), s.N, len(again), fmtPairs(again, 5), n, fmtPairs(full, 5))
		}
	}
	again := collectSeq(seq)
	if !pairsEqual(again, full) {
		return e.viol("wrong-result", "C14-reiterate", i, "tree %d (%s): ranging again over the same %s(%x,%x,n=%d) sequence yielded %d element(s); the first complete pass yielded %d", s.T, ts.cfg.Key, s.Op, []byte(s.K), []byte(s.K2), s.N, len(again), n)
	}
	// a fresh sequence value whose very FIRST pass is an abandoned one
	if n >= 1 {
		fresh := ts.api.Seq(s.Op, s.K, s.K2, kOf(s.N))
		stopAt := 0
		if n > 2 {
			stopAt = (i + n) % (n - 1)
		}
		cnt := 0
		fresh(func([]byte, uint64, bool) bool { cnt++; return cnt <= stopAt })
		for pass := 0; pass < 2; pass++ {
			if again := collectSeq(fresh); !pairsEqual(again, full) {
				return e.viol("wrong-result", "C14-reiterate-after-abandoned-first-pass", i, "tree %d (%s): a fresh %s(%x,%x,n=%d) sequence was abandoned after %d element(s) on its first pass; complete pass %d over it then yielded %d element(s) %s, expected %d %s", s.T, ts.cfg.Key, s.Op, []byte(s.K), []byte(s.K2), s.N, stopAt+1, pass+1, len(again), fmtPairs(again, 5), n, fmtPairs(full, 5))
			}
		}
		e.st.Probes["abandoned_first_pass"]++
	}
	// the same sequence value ranged over again while a pass over it is still in
	// progress (a nested loop): both passes must deliver the full result
	if n >= 2 {
		var outer, inner []pair
		seq(func(k []byte, id uint64, vok bool) bool {
			outer = append(outer, pair{k, id, vok})
			if len(outer) == 1+n/2 {
				inner = collectSeq(seq)
			}
			return true
		})
		e.st.Probes["nested_passes"]++
		if !pairsEqual(inner, full) || !pairsEqual(outer, full) {
			return e.viol("wrong-result", "C14-nested-reiterate", i, "tree %d (%s): ranging over the same %s(%x,%x,n=%d) sequence again from inside a pass over it: the outer pass delivered %d element(s), the inner %d; a complete pass has %d", s.T, ts.cfg.Key, s.Op, []byte(s.K), []byte(s.K2), s.N, len(outer), len(inner), n)
		}
	}
	// "with the tree unchanged": other read-only calls in between change nothing,
	// so the same sequence value must still yield the same result after them
	if m := ts.m; m.Len() > 0 {
		api := ts.api
		api.Search(m.es[0].orig)
		api.Search(m.es[m.Len()-1].orig)
		api.Search(m.es[m.Len()/2].orig)
		if len(s.K2) > 0 {
			api.Search(s.K2)
		}
		api.Min()
		if ts.cfg.Key.Kind != "compound" || true {
			other := api.Seq("range", m.es[0].orig, m.es[m.Len()/2].orig, 0) // built, deliberately not ranged over
			_ = other
		}
		if ts.cfg.Key.HasPrefix() {
			_ = api.Seq("prefix", m.es[m.Len()-1].orig, nil, 0)
		}
		again = collectSeq(seq)
		if !pairsEqual(again, full) {
			return e.viol("wrong-result", "C14-reiterate-after-queries", i, "tree %d (%s): after other read-only calls on the unchanged tree, ranging again over the same %s(%x,%x,n=%d) sequence yielded %d element(s) %s; the first complete pass yielded %d %s", s.T, ts.cfg.Key, s.Op, []byte(s.K), []byte(s.K2), s.N, len(again), fmtPairs(again, 5), n, fmtPairs(full, 5))
		}
		e.st.Probes["reiterate_after_queries"]++
	}
	return nil
}

func (e *Exec) checkSize(i int, s *Step, ts *treeState, modelBefore, apiBefore int) *Violation {
	var v *Violation
	msg := guard(func() {
		n := ts.api.Size()
		want := ts.m.Len()
		if n != want {
			v = e.viol("wrong-result", "C06-size", i, "tree %d (%s): after %s(%x) Size()=%d but %d keys are stored (Size() was %d with %d stored before the step)", s.T, ts.cfg.Key, s.Op, []byte(s.K), n, want, apiBefore, modelBefore)
			return
		}
		if ts.m.Len() <= 300 || i%8 == 0 {
			cnt := 0
			ts.api.Seq("all", nil, nil, 0)(func([]byte, uint64, bool) bool { cnt++; return true })
			if cnt != n {
				v = e.viol("wrong-result", "C06-size-vs-all", i, "tree %d (%s): Size()=%d but All() yields %d pairs", s.T, ts.cfg.Key, n, cnt)
			}
		}
	})
	if v == nil && msg != "" {
		e.st.Upstream++
	}
	return v
}

func (e *Exec) checkIter(i, ti int, ts *treeState) *Violation {
	var v *Violation
	msg := guard(func() {
		got := collectSeq(ts.api.Seq("all", nil, nil, 0))
		if err := e.compareSeq(ts, "All()", got, ts.m.es); err != nil {
			v = e.viol("wrong-result", "C02-all", i, "tree %d (%s): %v", ti, ts.cfg.Key, err)
			return
		}
		got = collectSeq(ts.api.Seq("back", nil, nil, 0))
		if err := e.compareSeq(ts, "Backward()", got, reversed(ts.m.es)); err != nil {
			v = e.viol("wrong-result", "C02-backward", i, "tree %d (%s): %v", ti, ts.cfg.Key, err)
		}
	})
	if v == nil && msg != "" {
		v = e.viol("panic", "C02-iterate", i, "tree %d (%s): iteration did not return normally: %s", ti, ts.cfg.Key, msg)
	}
	return v
}

func (e *Exec) checkExtremes(i, ti int, ts *treeState) *Violation {
	var v *Violation
	msg := guard(func() {
		k, id, ok, vok := ts.api.Min()
		if err := e.cmpExtreme(ts, "min", k, id, ok, vok); err != nil {
			v = e.viol("wrong-result", "C05-min", i, "tree %d (%s): %v", ti, ts.cfg.Key, err)
			return
		}
		k, id, ok, vok = ts.api.Max()
		if err := e.cmpExtreme(ts, "max", k, id, ok, vok); err != nil {
			v = e.viol("wrong-result", "C05-max", i, "tree %d (%s): %v", ti, ts.cfg.Key, err)
			return
		}
		n := ts.m.Len()
		if n > 1 {
			// a consumer that leaves a TopK/BottomK loop early must not affect the next one
			for _, op := range []string{"botk", "topk"} {
				cnt := 0
				ts.api.Seq(op, nil, nil, uint(n))(func([]byte, uint64, bool) bool { cnt++; return cnt < 1+n/2 })
				// ... and the very next one asks for more than there is
				st := Step{Op: op, N: n + 7}
				got := collectSeq(ts.api.Seq(op, nil, nil, uint(n+7)))
				if err := e.compareSeq(ts, fmt.Sprintf("%s(%d) right after an abandoned %s loop", op, n+7, op), got, e.expectedSeq(ts, &st)); err != nil {
					v = e.viol("wrong-result", "C05-"+op+"-after-early-break", i, "tree %d (%s): %v", ti, ts.cfg.Key, err)
					return
				}
			}
			e.st.Probes["extremes_after_early_break"]++
		}
		for _, k := range []int{0, 1, n - 1, n, n + 1, n + 7, -1, -2, -3} {
			if k == n-1 && k < 0 {
				continue // n == 0: there is no "size-1"
			}
			st := Step{Op: "botk", N: k}
			got := collectSeq(ts.api.Seq("botk", nil, nil, kOf(k)))
			if err := e.compareSeq(ts, fmt.Sprintf("BottomK(%d)", k), got, e.expectedSeq(ts, &st)); err != nil {
				v = e.viol("wrong-result", "C05-bottomk", i, "tree %d (%s): %v", ti, ts.cfg.Key, err)
				return
			}
			st.Op = "topk"
			got = collectSeq(ts.api.Seq("topk", nil, nil, kOf(k)))
			if err := e.compareSeq(ts, fmt.Sprintf("TopK(%d)", k), got, e.expectedSeq(ts, &st)); err != nil {
				v = e.viol("wrong-result", "C05-topk", i, "tree %d (%s): %v", ti, ts.cfg.Key, err)
				return
			}
		}
	})
	if v == nil && msg != "" {
		v = e.viol("panic", "C05-extremes", i, "tree %d (%s): Minimum/Maximum/TopK/BottomK did not return normally: %s", ti, ts.cfg.Key, msg)
	}
	return v
}

func (e *Exec) checkShapeStep(i int, s *Step, ts *treeState, mutated bool) *Violation {
	var v *Violation
	msg := guard(func() {
		d := ts.api.Dump()
		c, err := checkShape(d, e.lim, ts.api.ValID, !ts.noID, e.idsOf(ts), ts.api.Size())
		if err != nil {
			v = e.viol("structural", "C11-wellformed", i, "tree %d (%s) after %s(%x): %v", s.T, ts.cfg.Key, s.Op, []byte(s.K), err)
			return
		}
		if c.kf256 {
			if e.known["KF-N256-COUNTER"] {
				e.st.KnownHits["KF-N256-COUNTER"]++
			} else {
				v = e.viol("structural", "C11-wellformed", i, "tree %d (%s) after %s(%x): class 256 node with 256 children records fan-out 0", s.T, ts.cfg.Key, s.Op, []byte(s.K))
				return
			}
		}
		if mutated {
			e.noteShape(ts, c, d)
		}
	})
	if v == nil && msg != "" {
		v = e.viol("structural", "C11-unwalkable", i, "tree %d (%s) after %s(%x): the index could not be walked: %s", s.T, ts.cfg.Key, s.Op, []byte(s.K), msg)
	}
	return v
}

func (e *Exec) noteShape(ts *treeState, c *shapeChk, d *VNode) {
	if len(e.st.Shapes) < 4096 {
		e.st.Shapes = append(e.st.Shapes, c.shapeH)
		e.st.States = append(e.st.States, mix2(c.shapeH, c.classH))
	}
	if c.st.maxPath > e.lim {
		e.st.Probes["path_longer_than_inline_limit"]++
	}
	if c.st.maxPath == e.lim {
		e.st.Probes["path_equal_inline_limit"]++
	}
	if c.st.full256 {
		e.st.Probes["node_with_256_children"]++
	}
	e.histTransitions(ts, c.st.classes)
}

var classNames = [4]string{"4", "16", "48", "256"}

func (e *Exec) histTransitions(ts *treeState, h [4]int) {
	if ts.haveHist {
		for c := 0; c < 3; c++ {
			if h[c] < ts.lastHist[c] && h[c+1] > ts.lastHist[c+1] {
				e.st.Probes["grow_"+classNames[c]+"_to_"+classNames[c+1]]++
			}
			if h[c] > ts.lastHist[c] && h[c+1] < ts.lastHist[c+1] {
				e.st.Probes["shrink_"+classNames[c+1]+"_to_"+classNames[c]]++
			}
		}
	}
	ts.lastHist = h
	ts.haveHist = true
}

// probeTransitions: evidence only.
func (e *Exec) probeTransitions(ts *treeState, d *VNode, s *Step, sizeBefore int, withHist bool) {
	var h [4]int
	classHist(d, &h)
	innerBefore := ts.lastHist[0] + ts.lastHist[1] + ts.lastHist[2] + ts.lastHist[3]
	innerAfter := h[0] + h[1] + h[2] + h[3]
	if s.Op == "ins" && ts.m.Len() == sizeBefore+1 {
		switch {
		case sizeBefore == 0:
			e.st.Probes["insert_path_empty_tree"]++
		case innerAfter == innerBefore:
			e.st.Probes["insert_path_plain_add"]++
		default:
			if p := findParentOf(d, s.V, ts.api.ValID); p != nil {
				other := false
				for i := range p.Slots {
					if p.Slots[i].Live && p.Slots[i].Child != nil && !p.Slots[i].Child.Leaf {
						other = true
					}
				}
				if other {
					e.st.Probes["insert_path_compressed_path_split"]++
				} else {
					e.st.Probes["insert_path_leaf_split"]++
				}
			}
		}
	}
	if s.Op == "del" && innerAfter < innerBefore {
		e.st.Probes["delete_merged_node"]++
	}
	if !withHist {
		return
	}
	e.histTransitions(ts, h)
	if len(e.st.Shapes) < 4096 {
		e.st.Shapes = append(e.st.Shapes, hashBytes(digestOf(d, ts.api.ValID, false)))
	}
}

func hashBytes(b []byte) uint64 {
	h := uint64(0xcbf29ce484222325)
	for _, c := range b {
		h ^= uint64(c)
		h *= 0x100000001b3
	}
	return h
}

func (e *Exec) checkDigest(i int, s *Step, ts *treeState, before, noValBefore []byte, idsBefore []uint64) *Violation {
	var v *Violation
	msg := guard(func() {
		d := ts.api.Dump()
		if s.Op == "ins" {
			after := digestOf(d, ts.api.ValID, false)
			if !bytes.Equal(after, noValBefore) {
				v = e.viol("structural", "C15-overwrite-changed-structure", i, "tree %d (%s): Insert of the present key %x changed more than that key's value", s.T, ts.cfg.Key, []byte(s.K))
				return
			}
			var idsAfter []uint64
			leafIDs(d, ts.api.ValID, &idsAfter)
			diff := 0
			for j := range idsAfter {
				if j < len(idsBefore) && idsAfter[j] != idsBefore[j] {
					diff++
					if idsAfter[j] != s.V {
						v = e.viol("structural", "C15-overwrite-changed-other-value", i, "tree %d (%s): Insert of the present key %x changed another key's value", s.T, ts.cfg.Key, []byte(s.K))
						return
					}
				}
			}
			if diff > 1 || len(idsAfter) != len(idsBefore) {
				v = e.viol("structural", "C15-overwrite-changed-other-value", i, "tree %d (%s): Insert of the present key %x changed %d values", s.T, ts.cfg.Key, []byte(s.K), diff)
			}
			e.st.Probes["digest_overwrite_checked"]++
			return
		}
		after := digestOf(d, ts.api.ValID, true)
		if !bytes.Equal(after, before) {
			v = e.viol("structural", "C15-readonly-changed-tree", i, "tree %d (%s): %s(%x,%x,n=%d) changed the tree (raw structural serialisation differs: %d bytes before, %d after, first difference at byte %d)", s.T, ts.cfg.Key, s.Op, []byte(s.K), []byte(s.K2), s.N, len(before), len(after), firstDiff(before, after))
			return
		}
		e.st.Probes["digest_"+s.Op+"_checked"]++
	})
	if v == nil && msg != "" {
		v = e.viol("structural", "C15-unwalkable-after", i, "tree %d (%s): after %s the index could not be walked: %s", s.T, ts.cfg.Key, s.Op, msg)
	}
	return v
}

func firstDiff(a, b []byte) int {
	n := min(len(a), len(b))
	for i := 0; i < n; i++ {
		if a[i] != b[i] {
			return i
		}
	}
	return n
}

// finalSweep: at the end of the run every stored key is searched once more.
func (e *Exec) finalSweep() *Violation {
	last := len(e.tr.Steps)
	if e.prop == "C12" && len(e.trees) > 1 {
		for ti := range e.trees {
			if v := e.twinCheck(last-1, ti, false, "wrong-result", "C12-not-as-alone"); v != nil {
				return v
			}
		}
	}
	for ti, ts := range e.trees {
		if e.or&(oMap|oVal) != 0 {
			if v := e.fullContentCheck(last, ti, ts, "wrong-result", "C01-final-sweep", "at the end of the run", e.or&oIter != 0); v != nil {
				return v
			}
		}
	}
	return nil
}

func init() {
	debug.SetGCPercent(-1)
	debug.SetPanicOnFault(true)
}

// ---- twin replay: C15 ("read-only calls may be interleaved anywhere without
// affecting any later result") and C12 ("exactly the results it would produce alone") ----

type observation struct {
	min, max   pair
	minOK      bool
	maxOK      bool
	size       int
	all, back  []pair
	top, bot   []pair
	found      []bool
	ids        []uint64
	dig        []byte
}

func observe(ts *treeState, probes [][]byte, withDigest bool) (o observation, msg string) {
	msg = guard(func() {
		api := ts.api
		api.Buf2(layExact)
		o.min.k, o.min.id, o.minOK, o.min.vok = api.Min()
		o.max.k, o.max.id, o.maxOK, o.max.vok = api.Max()
		o.size = api.Size()
		o.all = collectSeq(api.Seq("all", nil, nil, 0))
		o.back = collectSeq(api.Seq("back", nil, nil, 0))
		o.top = collectSeq(api.Seq("topk", nil, nil, 3))
		o.bot = collectSeq(api.Seq("botk", nil, nil, 3))
		for _, k := range probes {
			id, f, _ := api.Search(k)
			o.found = append(o.found, f)
			o.ids = append(o.ids, id)
		}
		if withDigest && hookWalk {
			o.dig = digestOf(api.Dump(), api.ValID, true)
		}
	})
	return
}

func (a *observation) diff(b *observation) string {
	switch {
	case a.minOK != b.minOK || !bytes.Equal(a.min.k, b.min.k) || a.min.id != b.min.id:
		return fmt.Sprintf("Minimum() gives (%x,%d,%v) vs (%x,%d,%v)", a.min.k, a.min.id, a.minOK, b.min.k, b.min.id, b.minOK)
	case a.maxOK != b.maxOK || !bytes.Equal(a.max.k, b.max.k) || a.max.id != b.max.id:
		return fmt.Sprintf("Maximum() gives (%x,%d,%v) vs (%x,%d,%v)", a.max.k, a.max.id, a.maxOK, b.max.k, b.max.id, b.maxOK)
	case a.size != b.size:
		return fmt.Sprintf("Size() gives %d vs %d", a.size, b.size)
	case !pairsEqual(a.all, b.all):
		return fmt.Sprintf("All() gives %d pairs %s vs %d pairs %s", len(a.all), fmtPairs(a.all, 5), len(b.all), fmtPairs(b.all, 5))
	case !pairsEqual(a.back, b.back):
		return fmt.Sprintf("Backward() gives %d pairs vs %d pairs", len(a.back), len(b.back))
	case !pairsEqual(a.top, b.top):
		return "TopK(3) differs"
	case !pairsEqual(a.bot, b.bot):
		return "BottomK(3) differs"
	}
	for i := range a.found {
		if a.found[i] != b.found[i] || a.ids[i] != b.ids[i] {
			return fmt.Sprintf("Search of probe %d gives (%d,%v) vs (%d,%v)", i, a.ids[i], a.found[i], b.ids[i], b.found[i])
		}
	}
	if a.dig != nil && b.dig != nil && !bytes.Equal(a.dig, b.dig) {
		return fmt.Sprintf("raw structure differs (first difference at byte %d)", firstDiff(a.dig, b.dig))
	}
	return ""
}

// twinCheck replays tree ti's own sub-history (up to and including step upto)
// on a fresh tree — mutations only when mutationsOnly — and demands the same
// observable state as the tree that lived through the whole run.
func (e *Exec) twinCheck(upto, ti int, mutationsOnly bool, class, oracle string) *Violation {
	ts := e.trees[ti]
	sub := &Trace{Prop: "twin", Seed: e.tr.Seed, Run: e.tr.Run, Domain: e.tr.Domain, Trees: []TreeCfg{ts.cfg}}
	sub.Trees[0].Shared = false
	for i := 0; i <= upto && i < len(e.tr.Steps); i++ {
		s := e.tr.Steps[i]
		if s.T != ti {
			continue
		}
		if mutationsOnly && s.Op != "ins" && s.Op != "del" {
			continue
		}
		s.T = 0
		s.Lay, s.Pad = 0, 0
		sub.Steps = append(sub.Steps, s)
	}
	te := newExec(sub, e.known)
	var tv *Violation
	if msg := guard(func() { tv = te.Run() }); msg != "" || tv != nil {
		e.st.Upstream++
		return nil
	}
	var probes [][]byte
	for i := range ts.m.es {
		if i < 24 || i%7 == 0 {
			probes = append(probes, ts.m.es[i].orig)
		}
	}
	for i, k := range ts.deleted {
		if i < 16 {
			probes = append(probes, k)
		}
	}
	withDig := mutationsOnly // the structure must be the same too when only queries were dropped
	a, ma := observe(ts, probes, withDig)
	b, mb := observe(te.trees[0], probes, withDig)
	if ma != "" || mb != "" {
		if ma != "" && mb == "" {
			return e.viol(class, oracle, upto, "tree %d (%s): observing the tree panicked (%s) while the same history replayed on a fresh tree can be observed", ti, ts.cfg.Key, ma)
		}
		e.st.Upstream++
		return nil
	}
	e.st.Probes["twin_replays"]++
	if d := a.diff(&b); d != "" {
		what := "alone on a fresh tree"
		if mutationsOnly {
			what = "on a fresh tree without the interleaved read-only calls"
		}
		return e.viol(class, oracle, upto, "tree %d (%s): after step %d the tree and the same history replayed %s disagree: %s", ti, ts.cfg.Key, upto, what, d)
	}
	return nil
}
