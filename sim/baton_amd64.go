//go:build amd64

package main

func load32(p *int32) int32
func store32(p *int32, v int32)
