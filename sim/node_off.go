//go:build verifnonode

package main

// Fallback (tag verifnonode): /repo/verif_node.go does not compile against the
// current tree. The bare-node engine (C10) is unavailable; every other check runs.

const hookIter = false
const hookNode = false
const hookRaw = false

func (e *Exec) runNode() *Violation { return nil }

func genNodeTrace(seed uint64, run int, o genOpts) *Trace {
	return &Trace{Prop: "C10", Seed: seed, Run: run, Domain: o.domain, Mode: "node"}
}
