//go:build !verifnonode && !verifnoraw

package main

import art "github.com/Clement-Jean/go-art"

// Raw access to the in-node search primitives (/repo/verif_node_raw.go).

const hookRaw = true

func rawSearch4(keys uint32, b byte) int                 { return art.VerifSearchNode4(keys, b) }
func rawInsertPos4(keys uint32, b byte) int              { return art.VerifInsertPosNode4(keys, b) }
func rawSearch16(keys *[16]byte, n uint8, b byte) int    { return art.VerifSearchNode16(keys, n, b) }
func rawInsertPos16(keys *[16]byte, n uint8, b byte) int { return art.VerifInsertPosNode16(keys, n, b) }
