package main

import (
	"fmt"
	"os"
	"runtime"
)

// ---- C17: retained memory depends on content, not on history ----
//
// Trace mode "heap": one tree, one step {Op: class, N: operations, V: size S,
// K: 8-byte seed of the key set}. Classes:
//   hquery  N read-only queries of every kind on an unchanged tree of S keys
//   hover   N overwrites of present keys
//   hchurn  N delete/re-insert steps over a key set of 2S keys, tree size bounded by 2S
//   hdrain  (N/S rounds of) fill with S keys, delete everything; the tree is kept
// The live heap is measured after forced collections before and after; the
// harness's own buffers are allocated before the first measurement.

const (
	heapGrowthLimit = 512 << 10 // hquery/hover/hchurn
	heapDrainLimit  = 64 << 10  // hdrain, over the empty-tree baseline
)

func liveHeap() (uint64, uint64) {
	runtime.GC()
	runtime.GC()
	runtime.GC()
	var ms runtime.MemStats
	runtime.ReadMemStats(&ms)
	return ms.HeapAlloc, ms.HeapObjects
}

func heapKeys(kt KeyType, seed uint64, n int) [][]byte {
	r := NewRNG(seed)
	g := newGenTree(r, kt, "i64", 10)
	seen := map[string]bool{}
	var out [][]byte
	for tries := 0; len(out) < n && tries < n*50+1000; tries++ {
		k := g.newKey(r, tries%3 == 0)
		if kt.Kind == "collation" && g.m.Conflicts(k) {
			continue
		}
		if kt.Kind == "alpha" && g.m.nulRelated(k) {
			continue
		}
		c := string(kt.Canon(k))
		if seen[c] {
			continue
		}
		if isNew, conflict := g.m.Put(k, 1); !isNew || conflict {
			continue
		}
		seen[c] = true
		out = append(out, k)
	}
	return out
}

// crossKey builds a key of group g (the branch byte right under the root) and index j.
func crossKey(kt KeyType, g, j int) []byte {
	if kt.Kind == "alpha" {
		return []byte{byte(g), 'k', byte(j >> 16), byte(j >> 8), byte(j), 'x'}
	}
	return u64bytes(uint64(g)<<56 | uint64(j)<<4 | 1)
}

// runHeapCross: tree A grows wide, shrinks (its nodes go back to the shared pool),
// tree B then picks recycled nodes up while staying small; A is dropped. What B
// keeps alive must be B's own content, not remnants of A.
func (e *Exec) runHeapCross(s *Step) *Violation {
	if len(e.trees) < 2 {
		return nil
	}
	A, B := e.trees[0], e.trees[1]
	for _, t := range []*treeState{A, B} {
		if b := t.api.Buf(); b != nil {
			b.noTrack = true
		}
	}
	r := NewRNG(u64of(s.K))
	groups := max(5, s.N)
	S := int(s.V)
	keep := 1 + r.Intn(3)        // groups that survive the shrink
	bigLast := r.Chance(2, 3)    // the big subtree sits under the greatest branch byte
	bKeys := pick(r, []int{5, 6, 9, 17, 20})
	var v *Violation
	msg := guard(func() {
		base, _ := liveHeap()
		id := uint64(1)
		gbyte := func(g int) int { return 1 + g*(250/groups) }
		big := groups - 1
		if !bigLast {
			big = r.Intn(groups)
		}
		for g := 0; g < groups; g++ {
			n := 1 + r.Intn(2)
			if g == big {
				n = S
			}
			for j := 0; j < n; j++ {
				A.api.Insert(crossKey(A.cfg.Key, gbyte(g), j), id)
				id++
			}
		}
		// shrink: delete whole groups, smallest first, never the big one
		deleted := 0
		for g := 0; g < groups && groups-deleted > keep; g++ {
			if g == big {
				continue
			}
			for j := 0; j < 2; j++ {
				ok := A.api.Delete(crossKey(A.cfg.Key, gbyte(g), j))
				if os.Getenv("VERIF_DEBUG") != "" && g < 2 {
					fmt.Fprintf(os.Stderr, "del g=%d j=%d key=%x ok=%v size=%d\n", g, j, crossKey(A.cfg.Key, gbyte(g), j), ok, A.api.Size())
				}
			}
			deleted++
		}
		// B grows just enough to pick the released nodes up — no collection in between
		// (the pool hands nodes out in no simple order, so B acquires a few nodes
		// of each class: groups of 5 keys become 16-slot nodes, groups of 17 keys
		// 48-slot nodes; B stays at a couple of hundred keys)
		bInserted := 0
		bKey := func(g, x int) []byte {
			if B.cfg.Key.Kind == "alpha" {
				return []byte{byte(1 + g), byte(1 + x), 'b'}
			}
			return u64bytes(uint64(1+g)<<56 | uint64(1+x)<<48 | 7)
		}
		for g := 0; g < bKeys; g++ {
			n := 5
			if g%4 == 3 {
				n = 17
			}
			for x := 0; x < n; x++ {
				B.api.Insert(bKey(g, x), id)
				id++
				bInserted++
			}
		}
		bSize := B.api.Size()
		if os.Getenv("VERIF_DEBUG") != "" && hookWalk {
			d := B.api.Dump()
			stale := 0
			for _, sl := range d.Slots {
				if !sl.Live && sl.NonNil {
					stale++
				}
			}
			da := A.api.Dump()
			fmt.Fprintf(os.Stderr, "B root class=%d len=%d stale=%d ; A root class=%d len=%d\n", d.Class, d.ChildrenLen, stale, da.Class, da.ChildrenLen)
		}
		// drop A for good
		A.api, A.m = nil, nil
		e.trees[0] = nil
		after, _ := liveHeap()
		e.st.Probes["heap_cross_runs"]++
		if os.Getenv("VERIF_DEBUG") != "" {
			fmt.Fprintf(os.Stderr, "hcross groups=%d S=%d keep=%d bigLast=%v bKeys=%d base=%d after=%d diff=%d\n", groups, S, keep, bigLast, bKeys, base, after, int64(after)-int64(base))
		}
		e.st.Mutations++
		e.note(uint64(bSize))
		e.trees[0] = A
		if bSize != bInserted {
			e.st.Upstream++
			return
		}
		if after > base+heapDrainLimit+uint64(bInserted)*256 {
			v = e.viol("heap", "C17-cross-tree", 0, "%s then %s: after a tree of %d keys in %d groups shrank and was dropped, a second tree holding %d keys keeps %d bytes more alive than before either existed (limit %d)", A.cfg.Key, B.cfg.Key, S, groups, bInserted, after-base, heapDrainLimit)
		}
	})
	if msg != "" {
		e.st.Upstream++
		return nil
	}
	return v
}

func (e *Exec) runHeap() *Violation {
	if len(e.tr.Steps) == 0 || len(e.trees) == 0 {
		return nil
	}
	s := &e.tr.Steps[0]
	if s.Op == "hcross" {
		return e.runHeapCross(s)
	}
	// every other heap run: string keys are substrings of large strings
	substrKeys = s.Lay == 1
	defer func() { substrKeys = false }()
	ts := e.trees[0]
	api := ts.api
	if b := api.Buf(); b != nil {
		b.noTrack = true
	}
	kt := ts.cfg.Key
	S := int(s.V)
	N := s.N
	want := S
	if s.Op == "hchurn" {
		want = 2 * S
	}
	keys := heapKeys(kt, u64of(s.K), want)
	if len(keys) == 0 {
		return nil
	}
	if len(keys) < want {
		// small key spaces (uint8, int8): use what exists
		S = max(1, len(keys)/2)
		if s.Op != "hchurn" {
			S = len(keys)
		}
	}
	stored := map[string]bool{}
	for _, k := range keys {
		stored[string(kt.Canon(k))] = true
	}
	var absent [][]byte
	for _, k := range heapKeys(kt, u64of(s.K)^0x5555, 64) {
		if !stored[string(kt.Canon(k))] {
			absent = append(absent, k)
		}
	}
	if len(absent) == 0 {
		absent = keys[:1] // tiny key spaces: nothing is absent; the "absent" probes become present ones
	}
	canDeleteAbsent := !stored[string(kt.Canon(absent[0]))]
	r := NewRNG(u64of(s.K) ^ 0xABCDEF)
	nextID := uint64(1)
	var v *Violation
	// garbage budget: the collector is off, so the workload collects by hand. Keys cut
	// out of 32 KiB strings cost 32 KiB of garbage per call, so they get a shorter period
	// (a 4096-key fresh-key drain once reached 38 GB in one worker with a fixed period).
	gcEvery, sinceGC := 50000, 0
	if s.Lay == 1 {
		gcEvery = 2048
	}
	tick := func(n int) {
		sinceGC += n
		if sinceGC >= gcEvery {
			sinceGC = 0
			runtime.GC()
		}
	}
	// queries that find nothing: absent keys, prefixes and ranges without a match, and
	// every sequence kind on whatever the tree holds at the moment (possibly nothing).
	// A query path that registers something and only unregisters it on the way out of
	// a non-empty result poisons everything after it.
	drain := func(op string, k, k2 []byte, n uint) {
		stop := 3
		api.Seq(op, k, k2, n)(func([]byte, uint64, bool) bool { stop--; return stop > 0 })
	}
	noMatch := func() {
		a := absent[r.Intn(len(absent))]
		api.Search(a)
		if kt.HasPrefix() && len(a) > 0 && canDeleteAbsent {
			drain("prefix", a, nil, 0)
		}
		if kt.Kind != "collation" && canDeleteAbsent {
			drain("range", a, a, 0)
		}
		drain("all", nil, nil, 0)
		drain("back", nil, nil, 0)
		drain("topk", nil, nil, 2)
		drain("botk", nil, nil, 2)
		api.Min()
		api.Max()
	}
	msg := guard(func() {
		base, baseObj := liveHeap()
		fill := func(ks [][]byte) {
			for _, k := range ks {
				api.Insert(k, nextID)
				nextID++
			}
		}
		switch s.Op {
		case "hdrain":
			rounds := max(1, N/max(1, 2*S))
			// s.Pad==1: every round uses keys never seen before (still at most S stored at a time)
			counter := uint64(0)
			freshKey := func() []byte {
				counter++
				switch kt.Kind {
				case "alpha", "collation":
					return []byte(fmt.Sprintf("fresh-%d", counter))
				case "compound":
					k := clone(keys[0])
					copy(k[0:8], u64bytes(normField(kt.Schema[0], kt.Bits32, counter)))
					return k
				}
				return u64bytes(normField(kt.T, kt.Bits32, counter*2654435761))
			}
			round := make([][]byte, S)
			noMatch() // on the never-used tree
			for rd := 0; rd < rounds; rd++ {
				if rd%16 == 1 {
					noMatch() // on the emptied tree
				}
				cur := keys[:S]
				if s.Pad == 1 {
					for j := range round {
						round[j] = freshKey()
					}
					cur = round
				}
				fill(cur)
				for _, k := range cur {
					api.Delete(k)
				}
				tick(2 * len(cur))
			}
			after, afterObj := liveHeap()
			e.st.Probes["heap_drain_rounds"] += rounds
			e.st.Mutations++
			e.note(uint64(api.Size()))
			if api.Size() != 0 {
				e.st.Upstream++
				return
			}
			if after > base+heapDrainLimit {
				v = e.viol("heap", "C17-drain", 0, "%s: after %d rounds of inserting %d keys and deleting all of them the emptied tree keeps %d bytes (%d objects) more alive than before it was ever used (limit %d)", kt, rounds, S, after-base, int64(afterObj)-int64(baseObj), heapDrainLimit)
			}
			return
		}
		fill(keys[:S])
		before, beforeObj := liveHeap()
		// proportionality: what the filled tree keeps alive against what it stores. The
		// allowance is deliberately generous (1.5 KiB per key plus 32 bytes per key
		// byte — a collation sort key is about 5-6 bytes per byte of text — plus
		// 256 KiB); a tree that pins the kilobytes around each key is far above it.
		keyBytes := 0
		for _, k := range keys[:S] {
			keyBytes += len(k)
		}
		allowance := uint64(256<<10) + uint64(S)*1536 + uint64(keyBytes)*32
		if before > base+allowance {
			v = e.viol("heap", "C17-proportional", 0, "%s: a tree just filled with %d keys (%d key bytes in all) keeps %d bytes alive (allowance %d)", kt, S, keyBytes, before-base, allowance)
			return
		}
		switch s.Op {
		case "hquery":
			for i := 0; i < N; i++ {
				k := keys[r.Intn(S)]
				sel := i % 12
				if s.Pad > 0 {
					sel = []int{0, 3, 4, 5, 6, 7, 8, 9, 10}[(s.Pad-1)%9] // one kind of query only, unbroken
				}
				switch sel {
				case 0, 1, 2:
					api.Search(k)
				case 3:
					api.Search(absent[r.Intn(len(absent))])
				case 4:
					api.Min()
					api.Max()
				case 5:
					stop := r.Intn(8)
					api.Seq("all", nil, nil, 0)(func([]byte, uint64, bool) bool { stop--; return stop > 0 })
				case 6:
					stop := r.Intn(8)
					api.Seq("back", nil, nil, 0)(func([]byte, uint64, bool) bool { stop--; return stop > 0 })
				case 7:
					// sometimes consumed to the end, sometimes left after the first pair or two
					stop := r.Intn(4)
					api.Seq("topk", nil, nil, 5)(func([]byte, uint64, bool) bool { stop--; return stop != 0 })
					stop = r.Intn(4)
					api.Seq("botk", nil, nil, 5)(func([]byte, uint64, bool) bool { stop--; return stop != 0 })
				case 8:
					if kt.Kind != "collation" {
						stop := 4
						api.Seq("range", k, keys[r.Intn(S)], 0)(func([]byte, uint64, bool) bool { stop--; return stop > 0 })
					} else if canDeleteAbsent {
						api.Delete(absent[r.Intn(len(absent))])
					}
				case 9:
					if kt.HasPrefix() && len(k) > 0 {
						stop := 4
						api.Seq("prefix", k[:1+r.Intn(len(k))], nil, 0)(func([]byte, uint64, bool) bool { stop--; return stop > 0 })
					} else {
						api.Size()
					}
				case 10:
					if canDeleteAbsent {
						api.Delete(absent[r.Intn(len(absent))])
					}
				default:
					api.Search(k)
				}
				tick(1)
			}
		case "hover":
			for i := 0; i < N; i++ {
				api.Insert(keys[r.Intn(S)], nextID)
				nextID++
				// the second half is an unbroken run of overwrites (C17a12: state that only a
				// different kind of call resets)
				if i%2048 == 7 && i < N/2 {
					noMatch()
				}
				tick(1)
			}
		case "hchurn":
			all := keys
			present := make([]bool, len(all))
			for i := 0; i < S && i < len(all); i++ {
				present[i] = true
			}
			for i := 0; i < N; i++ {
				j := r.Intn(len(all))
				if present[j] {
					api.Delete(all[j])
					present[j] = false
				} else {
					api.Insert(all[j], nextID)
					nextID++
					present[j] = true
				}
				if i%2048 == 7 {
					noMatch()
				}
				tick(1)
			}
			// back to the starting content, so before/after compare like with like
			for j := range all {
				if j < S && !present[j] {
					api.Insert(all[j], nextID)
					nextID++
				} else if j >= S && present[j] {
					api.Delete(all[j])
				}
			}
		}
		after, afterObj := liveHeap()
		e.st.Probes["heap_ops_"+s.Op] += N
		e.st.Mutations++
		e.note(uint64(api.Size()))
		if api.Size() != S {
			// content is not what this workload assumes: another property's business
			e.st.Upstream++
			e.st.Skipped[fmt.Sprintf("size-mismatch-%s-%s", kt.Kind, s.Op)]++
			return
		}
		// the line: 512 KiB, or an eighth of the live heap before if that is more. A tree
		// that went through churn may keep some nodes in a larger size class than a
		// freshly built one (shrinking is lazier than growing): bounded by the content,
		// measured at +1.4 % on a 38 MB tree (seed 7, run 844). A per-operation leak is
		// orders of magnitude above either line at these operation counts.
		limit := uint64(heapGrowthLimit)
		if before/8 > limit {
			limit = before / 8
		}
		if after > before+limit {
			v = e.viol("heap", "C17-"+s.Op, 0, "%s with %d keys: %d %s operations grew the live heap from %d to %d bytes (+%d, %d objects; limit %d) with the content unchanged", kt, S, N, s.Op, before, after, after-before, int64(afterObj)-int64(beforeObj), limit)
		}
		_ = base
	})
	if msg != "" {
		e.st.Upstream++
		return nil
	}
	return v
}

func genHeapTrace(seed uint64, run int, o genOpts) *Trace {
	r := NewRNG(mix2(mix2(seed, hashStr("C17/"+o.domain)), uint64(run)))
	tr := &Trace{Prop: "C17", Seed: seed, Run: run, Domain: o.domain, Mode: "heap"}
	if run%6 == 5 {
		// cross-tree retention through the shared node pool
		mk := func() KeyType {
			switch r.Intn(4) {
			case 0:
				return KeyType{Kind: "alpha", T: "string"}
			case 1:
				return KeyType{Kind: "alpha", T: "bytes"}
			case 2:
				return KeyType{Kind: "unsigned", T: "uint64"}
			}
			return KeyType{Kind: "signed", T: "int64"}
		}
		tr.Trees = []TreeCfg{{Key: mk(), Val: pick(r, []string{"big", "ptr", "str"})}, {Key: mk(), Val: pick(r, []string{"i64", "ptr"})}}
		tr.Steps = []Step{{T: 0, Op: "hcross", N: pick(r, []int{5, 8, 16, 16, 17, 30, 48, 49, 80}), V: uint64(pick(r, []int{512, 4096, 4096, 20000})), K: u64bytes(r.U64())}}
		return tr
	}
	classes := []string{"hquery", "hover", "hchurn", "hdrain"}
	sizes := []int{1, 64, 4096}
	kinds := allKinds
	// rotate so that a batch of 72 consecutive runs covers kind × size × class
	kind := kinds[run%len(kinds)]
	size := sizes[(run/len(kinds))%len(sizes)]
	class := classes[(run/(len(kinds)*len(sizes)))%len(classes)]
	kt := chooseKeyType(r, kind, run/72, o.bits32)
	val := pick(r, []string{"i64", "ptr", "str", "big", "bytes"})
	tr.Trees = []TreeCfg{{Key: kt, Val: val}}
	N := 200000
	if o.tier == "thorough" {
		N = pick(r, []int{1000000, 1000000, 3000000})
	}
	if v := envInt("VERIF_HEAP_N", 0); v > 0 {
		N = v
	}
	tr.Steps = []Step{{T: 0, Op: class, N: N, V: uint64(size), K: u64bytes(r.U64())}}
	if class == "hquery" && r.Chance(2, 3) {
		tr.Steps[0].Pad = r.Range(1, 9) // an unbroken run of one kind of query
	}
	if r.Chance(1, 2) {
		tr.Steps[0].Lay = 1 // string keys cut out of large strings
	}
	if class == "hdrain" && r.Chance(1, 2) {
		tr.Steps[0].Pad = 1 // fresh keys every round
	}
	return tr
}
