//go:build !verifpoints

package main

const pointsAvailable = false

func setPointHook(f func(int)) {}

var pointsInCopy = 0

var sharedPoints []int
