//go:build !verifnonode && !verifnoiter

package main

import art "github.com/Clement-Jean/go-art"

// The library's own traversals over a bare node (/repo/verif_node_iter.go).

const hookIter = true
const hookNode = true

func hChildren(h *art.VerifNodeHandle) []int         { return h.Children() }
func hChildrenBackward(h *art.VerifNodeHandle) []int { return h.ChildrenBackward() }
func hFirst(h *art.VerifNodeHandle) int              { return h.First() }
func hLast(h *art.VerifNodeHandle) int               { return h.Last() }
