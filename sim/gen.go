package main

import (
	"math"
	"unicode/utf8"
)

// The generator turns (property, base seed, run index, tier, domain) into a
// complete explicit trace. It consults only its own reference model, never the
// library. Swarm style: tree kinds, value types, key universes, operation mix,
// environment-event rates and run length are all drawn per run.

type opWeights struct {
	ins, del, get, min, max, size, all, back, topk, botk, rng, prefix int
}

type profile struct {
	kinds     []string
	minTrees  int
	maxTrees  int
	w         opWeights
	envRate   int // one environment event per envRate steps on average (0 = none)
	valSwarm  bool
	layouts   bool // vary caller buffer layouts for []byte keys
	scribble  bool
	fanHeavy  bool
	absentPct int
	overwrite int // percentage of inserts aimed at present keys
	longTail  int // 1 in longTail runs is a long run
}

var allKinds = []string{"alpha", "unsigned", "signed", "float", "collation", "compound"}

func profileFor(prop string) profile {
	p := profile{kinds: allKinds, minTrees: 1, maxTrees: 2, envRate: 30, absentPct: 40, overwrite: 15, longTail: 12, valSwarm: true, layouts: true}
	switch prop {
	case "C01":
		p.w = opWeights{ins: 45, del: 20, get: 35}
		p.maxTrees = 3
	case "C02":
		p.w = opWeights{ins: 55, del: 35, get: 5, all: 3, back: 2}
	case "C03":
		p.kinds = []string{"alpha", "unsigned", "signed", "float", "compound"}
		p.w = opWeights{ins: 40, del: 15, rng: 45}
	case "C04":
		p.kinds = []string{"alpha", "alpha", "collation"}
		p.w = opWeights{ins: 40, del: 15, prefix: 45}
	case "C05":
		p.w = opWeights{ins: 45, del: 35, min: 5, max: 5, topk: 5, botk: 5}
	case "C06":
		p.w = opWeights{ins: 50, del: 30, get: 10, size: 6, all: 2, min: 2}
	case "C08":
		p.kinds = []string{"collation"}
		p.w = opWeights{ins: 45, del: 22, get: 25, all: 3, back: 2, min: 1, max: 1, topk: 1}
	case "C09":
		p.kinds = []string{"compound"}
		p.w = opWeights{ins: 42, del: 20, get: 20, rng: 10, all: 2, back: 2, min: 1, max: 1, topk: 1, botk: 1}
	case "C11":
		p.w = opWeights{ins: 50, del: 38, get: 12}
	case "C12":
		p.w = opWeights{ins: 44, del: 38, get: 8, size: 1, rng: 4, prefix: 2, min: 1, max: 1, topk: 1}
		p.minTrees, p.maxTrees = 2, 6
		p.envRate = 12
		p.fanHeavy = true
		p.longTail = 4
	case "C13":
		p.kinds = []string{"alphabytes", "alphabytes", "collbytes", "compound"}
		p.w = opWeights{ins: 35, del: 15, get: 20, prefix: 12, rng: 18}
		p.layouts = true
		p.scribble = true
	case "C14":
		p.w = opWeights{ins: 40, del: 12, all: 8, back: 8, topk: 8, botk: 8, rng: 8, prefix: 8}
		p.layouts = false // buffer reuse between passes is C13's subject, not C14's
	case "C15":
		p.w = opWeights{ins: 35, del: 25, get: 12, min: 3, max: 3, size: 2, all: 4, back: 3, topk: 3, botk: 3, rng: 4, prefix: 3}
		p.absentPct = 60
		p.overwrite = 40
	case "C16":
		p.w = opWeights{ins: 45, del: 30, get: 15, all: 2, back: 1, min: 2, max: 1, size: 1, rng: 2, prefix: 1}
		p.minTrees, p.maxTrees = 2, 8
		p.fanHeavy = true
		p.envRate = 0
	case "C18":
		p.w = opWeights{ins: 50, del: 25, get: 20, all: 3, rng: 2}
		p.envRate = 4
		p.maxTrees = 3
	default:
		p.w = opWeights{ins: 45, del: 20, get: 35}
	}
	return p
}

// ---- per-tree generator state ----

type genTree struct {
	kt       KeyType
	val      string
	m        *Model
	used     [][]byte
	deleted  [][]byte
	alphabet []byte
	runs     [][]byte // long shared runs
	fanPfx   []byte
	fanNext  int
	growing  bool
	phaseLen int
	bases    []uint64 // numeric cluster bases (per field for compound)
	collPfx  [][]byte
	lim      int
	strNUL   bool
	hanFan   bool
	long     bool   // this tree has keys of several KiB
	huge     bool   // this tree has keys sharing more than 64 KiB
	longStr  []byte // compound: a long shared head of the string field
}

var smallAlphabet = []byte{0x00, 0x01, 'a', 'b', 0x7F, 0x80, 0xFF}
var nulFreeAlphabet = []byte{0x01, 'a', 'b', 0x7F, 0x80, 0xFF}

var collAtoms = []string{
	"a", "A", "b", "B", "c", "z", "Z", "e", "\u00e9", "\u00e8", "e\u0301", "E", "\u00c9", "o", "\u00f6", "O", "\u00d6", "u", "\u00fc", "\u00df", "ss", "n", "\u00f1", "ch", "ll", "l", "\u00e5", "\u00e4",
	"0", "1", "2", "9", "10", "12", "007", " ", "-", "_", ".", "\u00ad", "\u200b", "\u007f", "\u0080", "\u07ff", "\u0800", "\uffff", "\U00010000", "\U0010ffff", "中", "文", "日", "本", "か", "カ", "한", "글", "ก", "ข", "𝒜", "😀", "ａ", "Ａ",
}

func (g *genTree) remember(k []byte) {
	if len(g.used) < 4096 {
		g.used = append(g.used, k)
	} else {
		g.used[int(hashBytes(k)%4096)] = k
	}
}

func normField(ft string, bits32 bool, u uint64) uint64 {
	w := fieldBits(ft, bits32)
	switch fieldClass(ft) {
	case 'u':
		if w < 64 {
			u &= (1 << uint(w)) - 1
		}
	case 'i':
		if w < 64 {
			sh := uint(64 - w)
			u = uint64(int64(u<<sh) >> sh)
		}
	case 'f':
		if w == 32 {
			u &= 0xFFFFFFFF
		}
	}
	return u
}

var floatSpecials64 = []uint64{
	0x7FF8000000000000, 0x7FF8000000000001, 0xFFF8000000000000, 0x7FF0000000000001, // NaNs
	0x7FF0000000000000, 0xFFF0000000000000, // ±Inf
	0x0000000000000000, 0x8000000000000000, // ±0
	0x0000000000000001, 0x8000000000000001, // ±smallest subnormal
	0x000FFFFFFFFFFFFF, 0x800FFFFFFFFFFFFF, // ±largest subnormal
	0x0010000000000000, 0x8010000000000000, // ±smallest normal
	0x7FEFFFFFFFFFFFFF, 0xFFEFFFFFFFFFFFFF, // ±max
	0x3FF0000000000000, 0xBFF0000000000000, 0x3FF8000000000000, 0x4000000000000000,
}

func genField(r *RNG, ft string, bits32 bool, base uint64) uint64 {
	w := fieldBits(ft, bits32)
	cls := fieldClass(ft)
	if cls == 'f' {
		switch r.Weighted([]int{30, 40, 30}) {
		case 0:
			u := pick(r, floatSpecials64)
			if w == 32 {
				f := math.Float64frombits(u)
				u32 := math.Float32bits(float32(f))
				if f != f {
					u32 = 0x7FC00000 | uint32(r.Intn(4))
					if r.Chance(1, 2) {
						u32 |= 0x80000000
					}
				}
				if r.Chance(1, 4) {
					u32 = pick(r, []uint32{0x00000001, 0x80000001, 0x007FFFFF, 0x7F7FFFFF, 0xFF7FFFFF, 0x00800000})
				}
				return uint64(u32)
			}
			return u
		case 1:
			// clustered: shared leading bytes, both signs
			d := uint64(r.Intn(1 << 12))
			if r.Chance(1, 3) {
				d = uint64(r.Intn(256))
			}
			u := base ^ d
			if r.Chance(1, 3) {
				u ^= 1 << uint(w-1)
			}
			return normField(ft, bits32, u)
		default:
			return normField(ft, bits32, r.U64())
		}
	}
	switch r.Weighted([]int{30, 45, 25}) {
	case 0:
		var max uint64 = math.MaxUint64
		if w < 64 {
			max = (1 << uint(w)) - 1
		}
		k := uint(r.Intn(w))
		c := []uint64{0, 1, 2, max, max - 1, 1 << k, (1 << k) - 1, (1 << k) + 1, max >> 1, (max >> 1) + 1, (max >> 1) + 2, 0x7F, 0x80, 0xFF, 0x100, 0x7FFF, 0x8000}
		return normField(ft, bits32, pick(r, c))
	case 1:
		d := uint64(r.Intn(256))
		if r.Chance(1, 3) {
			d = uint64(r.Intn(1 << 16))
		}
		return normField(ft, bits32, base^d)
	default:
		return normField(ft, bits32, r.U64())
	}
}

func (g *genTree) alphaBytes(r *RNG, n int, ab []byte) []byte {
	out := make([]byte, n)
	for i := range out {
		out[i] = pick(r, ab)
	}
	return out
}

func (g *genTree) newAlphaKey(r *RNG, fanHeavy bool) []byte {
	w := []int{30, 30, 20, 20}
	if fanHeavy {
		w = []int{8, 12, 70, 10}
	}
	if r.Chance(1, 40) {
		// length boundaries: keys whose length sits at, just below or just above a
		// power of two (stack buffers, size classes, inline arrays)
		L := pick(r, []int{15, 16, 17, 31, 32, 33, 63, 64, 65, 126, 127, 128, 129, 255, 256, 257, 511, 512}) + r.Range(-1, 1)
		k := make([]byte, L)
		fill := pick(r, nulFreeAlphabet)
		for i := range k {
			k[i] = fill
		}
		// a few varying bytes at the end so that several such keys coexist
		for i := 0; i < 3 && i < L; i++ {
			k[L-1-i] = pick(r, nulFreeAlphabet)
		}
		return k
	}
	switch r.Weighted(w) {
	case 0: // small: dense collisions, empty key, boundary bytes
		return g.alphaBytes(r, r.Intn(5), g.alphabet)
	case 1: // long: shared runs around the inline limit
		run := pick(r, g.runs)
		k := clone(run)
		if r.Chance(1, 5) && len(k) > 0 { // a sibling diverging inside the run
			pos := r.Intn(len(k))
			if len(k) > 65536 && r.Chance(2, 3) {
				pos = 65536 + r.Intn(len(k)-65536) // beyond the 64 KiB mark
			}
			k[pos] = pick(r, g.alphabet)
		}
		if r.Chance(1, 6) && len(k) > 0 {
			k = k[:r.Intn(len(k))]
		}
		return append(k, g.alphaBytes(r, r.Range(1, 3), g.alphabet)...)
	case 2: // fan: every byte value under one parent
		k := clone(g.fanPfx)
		var x byte
		if r.Chance(2, 3) {
			x = byte(g.fanNext)
			g.fanNext++
		} else {
			x = r.Byte()
		}
		k = append(k, x)
		if r.Chance(1, 3) {
			k = append(k, g.alphaBytes(r, r.Range(1, 2), g.alphabet)...)
		}
		return k
	default:
		return g.derive(r)
	}
}

// derive builds a key from one already used: a proper prefix, an extension, one
// byte changed or inserted — the absent-key probes that end inside, at or past a
// compressed path.
func (g *genTree) derive(r *RNG) []byte {
	if len(g.used) == 0 {
		return g.alphaBytes(r, r.Intn(4), g.alphabet)
	}
	k := clone(pick(r, g.used))
	switch r.Intn(5) {
	case 0:
		if len(k) > 0 {
			return k[:r.Intn(len(k))]
		}
	case 1:
		return append(k, g.alphaBytes(r, r.Range(1, 2), g.alphabet)...)
	case 2:
		if len(k) > 0 {
			k[r.Intn(len(k))] = pick(r, g.alphabet)
		}
	case 3:
		i := r.Intn(len(k) + 1)
		k = append(k[:i], append([]byte{pick(r, g.alphabet)}, k[i:]...)...)
	default:
		if len(k) > 0 {
			// cut near the inline limit
			c := g.lim + r.Range(-2, 3)
			if c >= 0 && c < len(k) {
				return k[:c]
			}
		}
	}
	return k
}

// fanLetters: single letters with pairwise different primary weights, many of
// them per script, so that one node of a collation tree gets a wide fan-out.
var fanLetters = func() []string {
	var out []string
	for c := 'a'; c <= 'z'; c++ {
		out = append(out, string(c))
	}
	for c := 'α'; c <= 'ω'; c++ {
		if c != 'ς' {
			out = append(out, string(c))
		}
	}
	for c := 'а'; c <= 'я'; c++ {
		if c != 'й' && c != 'ъ' && c != 'ь' {
			out = append(out, string(c))
		}
	}
	for c := 'ぁ'; c <= 'ん'; c += 2 {
		out = append(out, string(c))
	}
	return out
}()

func (g *genTree) newCollKey(r *RNG) []byte {
	if r.Chance(1, 3) && len(g.collPfx) > 0 {
		// fan: one shared prefix, one letter out of many, optional short tail
		s := clone(g.collPfx[0])
		var l string
		switch {
		case g.hanFan:
			// Han ideographs get implicit weights computed from the code point: 256
			// consecutive ones differ in one byte of the sort key — the only way a
			// collation tree reaches the 256-slot class
			l = string(rune(0x4E00 + g.fanNext%300))
			g.fanNext++
		case r.Chance(2, 3):
			l = fanLetters[g.fanNext%len(fanLetters)]
			g.fanNext++
		default:
			l = pick(r, fanLetters)
		}
		s = append(s, l...)
		if r.Chance(1, 4) {
			s = append(s, pick(r, collAtoms)...)
		}
		return s
	}
	var s []byte
	if r.Chance(3, 4) && len(g.collPfx) > 0 {
		s = clone(pick(r, g.collPfx))
	}
	n := r.Intn(4)
	if len(s) == 0 && r.Chance(9, 10) {
		n = r.Range(1, 4)
	}
	for i := 0; i < n; i++ {
		s = append(s, pick(r, collAtoms)...)
	}
	if r.Chance(1, 6) && len(g.used) > 0 {
		// derived: prefix of a used string cut at a rune boundary, or an extension
		u := pick(r, g.used)
		if r.Chance(1, 2) {
			cut := r.Intn(len(u) + 1)
			for cut > 0 && cut < len(u) && !utf8.RuneStart(u[cut]) {
				cut--
			}
			s = clone(u[:cut])
		} else {
			s = append(clone(u), pick(r, collAtoms)...)
		}
	}
	return s
}

func (g *genTree) newNumKey(r *RNG) []byte {
	kt := g.kt
	if kt.Kind == "compound" {
		var out []byte
		for i, ft := range kt.Schema {
			if ft == "str" {
				ab := nulFreeAlphabet
				if g.strNUL {
					ab = smallAlphabet
				}
				if g.longStr != nil && r.Chance(4, 5) {
					out = append(out, g.longStr...)
				}
				out = append(out, g.alphaBytes(r, r.Intn(5), ab)...)
				break
			}
			var u uint64
			if i < len(kt.Schema)-1 && r.Chance(3, 4) {
				// leading fields mostly from a tiny set so later fields matter
				u = normField(ft, kt.Bits32, g.bases[i]^uint64(r.Intn(3)))
			} else {
				u = genField(r, ft, kt.Bits32, g.bases[i])
			}
			out = append(out, u64bytes(u)...)
		}
		return out
	}
	return u64bytes(genField(r, kt.T, kt.Bits32, g.bases[0]))
}

func (g *genTree) newKey(r *RNG, fanHeavy bool) []byte {
	var k []byte
	switch g.kt.Kind {
	case "alpha":
		k = g.newAlphaKey(r, fanHeavy)
	case "collation":
		k = g.newCollKey(r)
	default:
		if fanHeavy && g.kt.Kind != "compound" && r.Chance(2, 3) {
			// fan on numeric keys: sweep the low byte under a fixed base
			u := (g.bases[0] &^ 0xFF) | uint64(g.fanNext&0xFF)
			g.fanNext++
			k = u64bytes(normField(g.kt.T, g.kt.Bits32, u))
		} else {
			k = g.newNumKey(r)
		}
	}
	g.remember(k)
	return k
}

func (g *genTree) presentKey(r *RNG) ([]byte, bool) {
	if g.m.Len() == 0 {
		return nil, false
	}
	return g.m.es[r.Intn(g.m.Len())].orig, true
}

// absentKey tries to produce a key that is not stored, preferring derived ones.
func (g *genTree) absentKey(r *RNG, fanHeavy bool) []byte {
	if g.kt.Kind == "float" && r.Chance(1, 6) {
		// the other zero, or the neighbouring bit pattern, of a stored key
		if pk, ok := g.presentKey(r); ok {
			u := u64of(pk)
			w := fieldBits(g.kt.T, false)
			v := u ^ (1 << uint(w-1)) // flip the sign: +0 <-> -0, x <-> -x
			if r.Chance(1, 3) {
				v = u ^ 1
			}
			k := u64bytes(normField(g.kt.T, false, v))
			if _, ok := g.m.Get(k); !ok {
				return k
			}
		}
	}
	for try := 0; try < 6; try++ {
		var k []byte
		switch {
		case len(g.deleted) > 0 && r.Chance(1, 3):
			k = pick(r, g.deleted)
		case g.kt.Kind == "alpha" && r.Chance(1, 2):
			k = g.derive(r)
			g.remember(k)
		default:
			k = g.newKey(r, fanHeavy)
		}
		if _, ok := g.m.Get(k); !ok {
			return k
		}
	}
	return g.newKey(r, fanHeavy)
}

// neighbour returns a key just above or below k in the tree's order (possibly absent).
func (g *genTree) neighbour(r *RNG, k []byte) []byte {
	switch g.kt.Kind {
	case "alpha", "collation":
		n := clone(k)
		switch r.Intn(4) {
		case 0:
			return append(n, pick(r, g.alphabet))
		case 1:
			if len(n) > 0 {
				return n[:len(n)-1]
			}
		case 2:
			if len(n) > 0 && n[len(n)-1] < 0xFF && g.kt.Kind == "alpha" {
				n[len(n)-1]++
			}
		default:
			if len(n) > 0 && n[len(n)-1] > 0 && g.kt.Kind == "alpha" {
				n[len(n)-1]--
			}
		}
		return n
	case "compound":
		n := clone(k)
		nf := len(g.kt.Schema)
		if g.kt.Schema[nf-1] == "str" {
			nf--
		}
		if nf == 0 {
			return append(n, pick(r, nulFreeAlphabet))
		}
		f := r.Intn(nf)
		u := u64of(n[8*f:])
		if r.Chance(1, 2) {
			u++
		} else {
			u--
		}
		copy(n[8*f:], u64bytes(normField(g.kt.Schema[f], g.kt.Bits32, u)))
		return n
	}
	u := u64of(k)
	if r.Chance(1, 2) {
		u++
	} else {
		u--
	}
	return u64bytes(normField(g.kt.T, g.kt.Bits32, u))
}

func (g *genTree) boundKey(r *RNG, fanHeavy bool) []byte {
	switch r.Weighted([]int{40, 30, 20, 10}) {
	case 0:
		if k, ok := g.presentKey(r); ok {
			return k
		}
	case 1:
		if k, ok := g.presentKey(r); ok {
			return g.neighbour(r, k)
		}
	case 2:
		return g.absentKey(r, fanHeavy)
	}
	return g.newKey(r, fanHeavy)
}

func (g *genTree) prefixQuery(r *RNG) []byte {
	a, okA := g.presentKey(r)
	if !okA {
		if len(g.used) > 0 {
			a = pick(r, g.used)
		} else {
			a = g.newKey(r, false)
		}
	}
	cutAt := func(k []byte, c int) []byte {
		if c < 0 {
			c = 0
		}
		if c > len(k) {
			c = len(k)
		}
		if g.kt.Kind == "collation" {
			for c > 0 && c < len(k) && !utf8.RuneStart(k[c]) {
				c--
			}
		}
		return clone(k[:c])
	}
	switch r.Weighted([]int{6, 14, 10, 30, 14, 14, 12}) {
	case 0:
		return nil
	case 1:
		return clone(a)
	case 2: // longer than the key
		if g.kt.Kind == "collation" {
			return append(clone(a), pick(r, collAtoms)...)
		}
		return append(clone(a), pick(r, g.alphabet))
	case 3: // proper prefix: anywhere, and around the inline limit
		if r.Chance(1, 2) {
			return cutAt(a, g.lim+r.Range(-2, 3))
		}
		return cutAt(a, r.Intn(len(a)+1))
	case 4: // diverging at a position
		p := cutAt(a, r.Intn(len(a)+1))
		if g.kt.Kind == "collation" {
			return append(p, pick(r, collAtoms)...)
		}
		return append(p, pick(r, g.alphabet))
	case 5: // run ++ b ++ continuation of a sibling
		b, okB := g.presentKey(r)
		if okB && g.kt.Kind == "alpha" && len(a) > 0 && len(b) > 0 {
			i := r.Intn(len(a))
			j := min(i+1, len(b))
			e := min(len(b), j+r.Range(0, 3))
			return append(clone(a[:i+1]), b[j:e]...)
		}
		return cutAt(a, len(a)-1)
	default:
		return g.absentKey(r, false)
	}
}

// ---- run configuration ----

func chooseKeyType(r *RNG, kind string, idx int, bits32 bool) KeyType {
	switch kind {
	case "alpha":
		return KeyType{Kind: "alpha", T: pick(r, []string{"string", "bytes"})}
	case "alphabytes":
		return KeyType{Kind: "alpha", T: "bytes"}
	case "collbytes":
		return KeyType{Kind: "collation", T: "bytes", Coll: pick(r, []string{"default", "root", "de", "sv", "numeric"})}
	case "unsigned":
		return KeyType{Kind: kind, T: unsignedTypes[(idx+r.Intn(2))%len(unsignedTypes)], Bits32: bits32}
	case "signed":
		return KeyType{Kind: kind, T: signedTypes[(idx+r.Intn(2))%len(signedTypes)], Bits32: bits32}
	case "float":
		return KeyType{Kind: kind, T: floatTypes[idx%2]}
	case "collation":
		t := pick(r, []string{"string", "string", "bytes", "runes"})
		if t == "runes" {
			return KeyType{Kind: kind, T: t, Coll: "default"}
		}
		return KeyType{Kind: kind, T: t, Coll: collNames[(idx+r.Intn(3))%len(collNames)]}
	case "compound":
		n := r.Range(1, 4)
		var sc []string
		for i := 0; i < n; i++ {
			sc = append(sc, pick(r, numericTypes))
		}
		if r.Chance(1, 3) {
			if n == 4 {
				sc = sc[:3]
			}
			sc = append(sc, "str")
		}
		return KeyType{Kind: kind, T: "tuple", Schema: sc, Bits32: bits32}
	}
	panic("chooseKeyType " + kind)
}

func newGenTree(r *RNG, kt KeyType, val string, lim int) *genTree {
	g := &genTree{kt: kt, val: val, m: newModel(kt), lim: lim, growing: true}
	g.alphabet = smallAlphabet
	if r.Chance(1, 4) {
		g.alphabet = []byte{0x00, 'a', 'b', 0xFF}
	}
	// long runs: lengths swept over 0..24, biased to lim-2..lim+3
	nr := r.Range(1, 3)
	for i := 0; i < nr; i++ {
		var L int
		if r.Chance(2, 3) {
			L = lim + r.Range(-2, 3)
		} else {
			L = r.Intn(25)
		}
		if r.Chance(1, 10) {
			L = r.Range(40, 140) // long keys: several inline limits deep, beyond any small fixed buffer
		}
		if r.Chance(1, 60) {
			L = r.Range(900, 5000) // very long keys: beyond page-sized internal buffers
			g.long = true
		}
		if r.Chance(1, 250) {
			L = r.Range(65400, 70000) // shared prefixes beyond 64 KiB: 16-bit lengths and depths wrap here
			g.huge = true
		}
		if L < 0 {
			L = 0
		}
		run := make([]byte, L)
		rb := pick(r, []byte{'p', 'q', 0x80, 0x01})
		for j := range run {
			run[j] = rb
			if r.Chance(1, 5) {
				run[j] = pick(r, nulFreeAlphabet)
			}
		}
		if i > 0 && r.Chance(1, 2) && len(g.runs[0]) > 0 {
			// a second run sharing a head with the first: sibling subtrees under one long path
			h := r.Intn(len(g.runs[0]) + 1)
			run = append(clone(g.runs[0][:h]), run...)
			if len(run) > 28 && L < 40 {
				run = run[:28]
			}
			if len(run) > 5200 && !g.huge {
				run = run[:5200]
			}
		}
		g.runs = append(g.runs, run)
	}
	g.fanPfx = g.alphaBytes(r, r.Intn(3), nulFreeAlphabet)
	if r.Chance(1, 3) {
		g.fanPfx = clone(g.runs[0])
	}
	g.fanNext = r.Intn(256)
	g.hanFan = r.Chance(1, 4)
	g.phaseLen = r.Range(20, 120)
	nb := 1
	if kt.Kind == "compound" {
		nb = len(kt.Schema)
		if len(kt.Schema) > 0 && kt.Schema[len(kt.Schema)-1] == "str" {
			switch {
			case r.Chance(1, 60):
				g.longStr = bytesOf(r, r.Range(65400, 68000))
				g.huge = true
			case r.Chance(1, 20):
				g.longStr = bytesOf(r, r.Range(8, 40))
			}
		}
	}
	for i := 0; i < nb; i++ {
		g.bases = append(g.bases, r.U64())
	}
	np := r.Range(1, 3)
	for i := 0; i < np; i++ {
		var p []byte
		n := r.Intn(7)
		for j := 0; j < n; j++ {
			p = append(p, pick(r, collAtoms)...)
		}
		if kt.Kind == "collation" && r.Chance(1, 300) {
			// sort keys beyond 64 KiB (about five sort-key bytes per letter)
			n := r.Range(13200, 15000)
			p = p[:0]
			for len(p) < n {
				p = append(p, byte('a'+r.Intn(3)))
			}
			g.huge = true
		} else if kt.Kind == "collation" && r.Chance(1, 40) {
			// a very long shared prefix: sort keys far beyond any page-sized scratch buffer
			g.long = true
			n := r.Range(850, 1600)
			p = p[:0]
			for len(p) < n {
				p = append(p, byte('a'+r.Intn(3)))
			}
		}
		g.collPfx = append(g.collPfx, p)
	}
	return g
}

type genOpts struct {
	churnBias bool // statement-point batches: every independent-trees run is a pool-churn run
	growBias  bool // background-collector batches: most runs drive nodes through every size class (sweeps)
	tier   string
	domain string
	bits32 bool
	lim    int
}

func stepBudget(r *RNG, p profile, tier string) int {
	if r.Intn(p.longTail) == 0 {
		if tier == "thorough" {
			return r.Range(400, 3000)
		}
		return r.Range(300, 1100)
	}
	if r.Chance(1, 5) {
		return r.Range(3, 12)
	}
	return r.Range(10, 80)
}

func genTrace(prop string, seed uint64, run int, o genOpts) *Trace {
	if prop == "C10" {
		return genNodeTrace(seed, run, o)
	}
	if prop == "C17" {
		return genHeapTrace(seed, run, o)
	}
	if prop == "C16" {
		return genRaceTrace(seed, run, o)
	}
	r := NewRNG(mix2(mix2(seed, hashStr(prop+"/"+o.domain)), uint64(run)))
	p := profileFor(prop)
	tr := &Trace{Prop: prop, Seed: seed, Run: run, Domain: o.domain}
	if o.bits32 {
		tr.Arch = "386"
	}
	if o.domain == "KF-NUL-PREFIX" {
		p.kinds = []string{"alpha"}
	}
	nT := r.Range(p.minTrees, p.maxTrees)
	var gts []*genTree
	for j := 0; j < nT; j++ {
		kind := p.kinds[(run+j*5+r.Intn(2))%len(p.kinds)]
		kt := chooseKeyType(r, kind, run/len(p.kinds)+j, o.bits32)
		val := "i64"
		if prop == "C18" {
			val = valTypes[(run+j)%len(valTypes)]
		} else if p.valSwarm && r.Chance(1, 4) {
			val = pick(r, valTypes)
		}
		if (prop == "C15" || prop == "C11" || prop == "C12") && val == "empty" {
			val = "ptr"
		}
		cfg := TreeCfg{Key: kt, Val: val}
		if kt.Kind == "compound" && prop == "C13" {
			cfg.SpareCodec = true
		}
		ownCodec := kt.Kind == "compound" && r.Chance(1, 3)
		if ownCodec {
			cfg.Codec = "own"
		} else if kt.Kind == "compound" && r.Chance(1, 3) {
			cfg.Codec = "zerocopy"
		}
		tr.Trees = append(tr.Trees, cfg)
		gt := newGenTree(r, kt, val, o.lim)
		gt.strNUL = ownCodec // an escaping codec may carry 0x00 inside its string field
		gts = append(gts, gt)
	}
	if o.domain == "KF-NUL-PREFIX" {
		for _, g := range gts {
			g.alphabet = []byte{0x00, 0x00, 'a', 'b'}
		}
	}
	budget := stepBudget(r, p, o.tier)
	for _, g := range gts {
		if g.huge && budget > 40 {
			budget = r.Range(8, 40) // 64 KiB keys: every step copies and compares a lot
		}
		if g.long && budget > 200 {
			budget = r.Range(40, 200)
		}
	}
	fanHeavy := p.fanHeavy || r.Chance(1, 4)
	if budget >= 300 {
		fanHeavy = fanHeavy || r.Chance(2, 3)
	}
	// swarm: perturb the operation mix
	w := p.w
	pert := func(x *int) {
		if *x > 0 {
			*x = max(1, *x*r.Range(50, 150)/100)
		}
	}
	for _, x := range []*int{&w.ins, &w.del, &w.get, &w.min, &w.max, &w.size, &w.all, &w.back, &w.topk, &w.botk, &w.rng, &w.prefix} {
		pert(x)
	}
	envKinds := []string{"gc1", "gc2", "churn"}
	envOn := []bool{r.Chance(3, 4), r.Chance(3, 4), r.Chance(1, 2)}
	nextID := uint64(1)
	ops := []string{"ins", "del", "get", "min", "max", "size", "all", "back", "topk", "botk", "range", "prefix"}

	emit := func(s Step) { tr.Steps = append(tr.Steps, s) }
	lay := func(g *genTree) (int, int) {
		if !p.layouts || !g.kt.IsBytesKey() {
			return layExact, 0
		}
		return r.Weighted([]int{25, 45, 30}), r.Range(1, 9) | r.Intn(3)<<4
	}

	// sweep phase (1 run in 25): one node climbs through every size class to all
	// 256 children and back down, the only way to reach a full 256-slot node
	anyHuge := false
	for _, g := range gts {
		anyHuge = anyHuge || g.huge || g.long // no 256-key sweeps with kilobyte keys: slow and memory hungry, nothing new
	}
	if r.Intn(8) == 0 && o.domain == "main" && !anyHuge {
		// plateau phase: one node is filled to exactly a class capacity (or one
		// past it), drained in a chosen order to a chosen floor, and the deleted
		// keys are probed again — node states that only exist after a class was
		// exactly full
		ti := r.Intn(nT)
		g := gts[ti]
		if g.kt.Kind != "collation" && g.kt.Kind != "compound" {
			peak := pick(r, []int{4, 5, 16, 16, 16, 17, 48, 48, 49, 60})
			floor := pick(r, []int{1, 2, 3, 3, 4, 11, 12, 13, 36, 37})
			if floor >= peak {
				floor = 2
			}
			base := r.Intn(256 - peak)
			stride := 1
			if peak < 60 && r.Chance(1, 2) {
				stride = max(1, 250/peak)
				base = r.Intn(4)
			}
			mk := func(x int) []byte {
				if g.kt.Kind == "alpha" {
					return append(clone(g.fanPfx), byte(x), 'p')
				}
				return u64bytes(normField(g.kt.T, g.kt.Bits32, (g.bases[0]&^0xFF)|uint64(x)))
			}
			var xs []int
			for i := 0; i < peak; i++ {
				xs = append(xs, base+i*stride)
			}
			order := append([]int{}, xs...)
			if r.Chance(1, 2) {
				for i := len(order) - 1; i > 0; i-- {
					j := r.Intn(i + 1)
					order[i], order[j] = order[j], order[i]
				}
			}
			for _, x := range order {
				k := mk(x)
				if g.kt.Kind == "alpha" && g.m.nulRelated(k) {
					continue
				}
				s := Step{T: ti, Op: "ins", K: k, V: nextID}
				s.Lay, s.Pad = lay(g)
				nextID++
				g.m.Put(k, s.V)
				g.remember(k)
				emit(s)
			}
			// drain: largest first, smallest first, or random
			drain := append([]int{}, xs...)
			switch r.Intn(3) {
			case 0:
				for i, j := 0, len(drain)-1; i < j; i, j = i+1, j-1 {
					drain[i], drain[j] = drain[j], drain[i]
				}
			case 1:
			default:
				for i := len(drain) - 1; i > 0; i-- {
					j := r.Intn(i + 1)
					drain[i], drain[j] = drain[j], drain[i]
				}
			}
			var gone []int
			for _, x := range drain {
				if g.m.Len() <= floor {
					break
				}
				k := mk(x)
				s := Step{T: ti, Op: "del", K: k}
				s.Lay, s.Pad = lay(g)
				if g.m.Del(k) {
					gone = append(gone, x)
					if len(g.deleted) < 256 {
						g.deleted = append(g.deleted, clone(k))
					}
				}
				emit(s)
			}
			// the deleted keys again: lookups, deletes (must report absent), some re-inserted
			for _, x := range gone {
				switch r.Intn(4) {
				case 0:
					emit(Step{T: ti, Op: "get", K: mk(x)})
				case 1:
					emit(Step{T: ti, Op: "del", K: mk(x)})
				case 2:
					k := mk(x)
					emit(Step{T: ti, Op: "ins", K: k, V: nextID})
					g.m.Put(k, nextID)
					nextID++
				}
			}
			emit(Step{T: ti, Op: "all"})
			emit(Step{T: ti, Op: "max"})
			budget += len(tr.Steps)
		}
	}
	if (r.Intn(25) == 0 || (o.growBias && r.Intn(3) != 0)) && !anyHuge {
		ti := r.Intn(nT)
		g := gts[ti]
		if g.kt.Kind != "collation" && g.kt.Kind != "compound" {
			perm := make([]int, 256)
			for i := range perm {
				perm[i] = i
			}
			for i := 255; i > 0; i-- {
				j := r.Intn(i + 1)
				perm[i], perm[j] = perm[j], perm[i]
			}
			mk := func(x int) []byte {
				if g.kt.Kind == "alpha" {
					return append(clone(g.fanPfx), byte(x), 'a')
				}
				return u64bytes(normField(g.kt.T, g.kt.Bits32, (g.bases[0]&^0xFF)|uint64(x)))
			}
			for _, x := range perm {
				k := mk(x)
				if g.kt.Kind == "alpha" && o.domain == "main" && g.m.nulRelated(k) {
					continue
				}
				s := Step{T: ti, Op: "ins", K: k, V: nextID}
				s.Lay, s.Pad = lay(g)
				nextID++
				g.m.Put(k, s.V)
				g.remember(k)
				emit(s)
				if r.Chance(1, 16) {
					emit(Step{T: ti, Op: "get", K: mk(r.Intn(256))})
				}
			}
			// at the peak (one node with a child for every byte value) and on the way
			// down, ask every kind of question once
			peak := func() {
				emit(Step{T: ti, Op: "all"})
				emit(Step{T: ti, Op: "back"})
				emit(Step{T: ti, Op: "min"})
				emit(Step{T: ti, Op: "max"})
				emit(Step{T: ti, Op: "size"})
				emit(Step{T: ti, Op: "topk", N: r.Range(1, 300)})
				emit(Step{T: ti, Op: "botk", N: r.Range(1, 300)})
				a, b := mk(r.Intn(256)), mk(r.Intn(256))
				if g.kt.Kind != "collation" {
					emit(Step{T: ti, Op: "range", K: a, K2: b})
					emit(Step{T: ti, Op: "range", K: mk(0), K2: mk(255)})
				}
				if g.kt.Kind == "alpha" {
					emit(Step{T: ti, Op: "prefix", K: clone(g.fanPfx)})
					emit(Step{T: ti, Op: "prefix", K: a[:len(a)-1]})
					emit(Step{T: ti, Op: "range", K: a})
				}
			}
			peak()
			down := r.Range(200, 256)
			for i := 0; i < down; i++ {
				k := mk(perm[(i*7+3)%256])
				s := Step{T: ti, Op: "del", K: k}
				s.Lay, s.Pad = lay(g)
				g.m.Del(k)
				emit(s)
				if i == 0 || i == 207 || i == 219 || i == 243 || r.Intn(60) == 0 {
					peak()
				}
			}
			budget += len(tr.Steps)
		}
	}

	emitBattery := func(ti int, g *genTree) {
		for _, op := range []string{"size", "min", "max", "all", "back"} {
			emit(Step{T: ti, Op: op})
		}
		emit(Step{T: ti, Op: "topk", N: 3})
		emit(Step{T: ti, Op: "botk", N: 3})
		if g.kt.Kind != "collation" || prop == "C14" || prop == "C15" || prop == "C12" {
			emit(Step{T: ti, Op: "range", K: g.newKey(r, false), K2: g.newKey(r, false)})
			if g.kt.Kind == "alpha" || g.kt.Kind == "collation" {
				emit(Step{T: ti, Op: "range", K: g.newKey(r, false)}) // open end
			}
		}
		if g.kt.HasPrefix() {
			emit(Step{T: ti, Op: "prefix", K: g.newKey(r, false)})
			emit(Step{T: ti, Op: "prefix"})
		}
		if len(g.deleted) > 0 {
			emit(Step{T: ti, Op: "get", K: pick(r, g.deleted)})
			emit(Step{T: ti, Op: "del", K: pick(r, g.deleted)})
		}
	}

	// closed walk (C11, 1 run in 5): a universe of 6..10 keys built to force
	// splits, merges and the inline limit; random toggles visit its subsets, and
	// since the shape may depend only on the key set, every revisit of a subset
	// is compared (through the ideal tree) with every other way of reaching it
	if prop == "C11" && r.Intn(5) == 0 {
		g := gts[0]
		var uni [][]byte
		for len(uni) < r.Range(6, 10) {
			k := g.newKey(r, false)
			dup := false
			for _, u := range uni {
				if string(g.kt.Canon(u)) == string(g.kt.Canon(k)) {
					dup = true
				}
			}
			if dup || (g.kt.Kind == "collation" && func() bool {
				for _, u := range uni {
					if string(g.m.co.Key(u)) == string(g.m.co.Key(k)) {
						return true
					}
				}
				return false
			}()) {
				continue
			}
			if g.kt.Kind == "alpha" {
				bad := false
				for _, u := range uni {
					if len(u) > len(k) && string(u[:len(k)]) == string(k) && u[len(k)] == 0 || len(k) > len(u) && string(k[:len(u)]) == string(u) && k[len(u)] == 0 {
						bad = true
					}
				}
				if bad {
					continue
				}
			}
			uni = append(uni, k)
		}
		n := r.Range(60, 240)
		for j := 0; j < n; j++ {
			k := uni[r.Intn(len(uni))]
			if _, ok := g.m.Get(k); ok {
				emit(Step{T: 0, Op: "del", K: clone(k)})
				g.m.Del(k)
			} else {
				emit(Step{T: 0, Op: "ins", K: clone(k), V: nextID})
				g.m.Put(k, nextID)
				nextID++
			}
		}
		return tr
	}

	for len(tr.Steps) < budget {
		// environment
		if p.envRate > 0 && r.Intn(p.envRate) == 0 {
			k := r.Intn(len(envKinds))
			if envOn[k] {
				emit(Step{T: -1, Op: envKinds[k]})
				if prop == "C18" && envKinds[k] == "gc2" {
					emit(Step{T: -1, Op: "churn"})
				}
			}
		}
		if p.scribble && r.Intn(12) == 0 {
			emit(Step{T: -1, Op: "scribble"})
		}
		ti := r.Intn(nT)
		g := gts[ti]
		ww := []int{w.ins, w.del, w.get, w.min, w.max, w.size, w.all, w.back, w.topk, w.botk, w.rng, w.prefix}
		if !g.kt.HasPrefix() {
			ww[11] = 0
		}
		if g.kt.Kind == "collation" && prop != "C14" && prop != "C15" && prop != "C13" {
			ww[10] = 0
		}
		if fanHeavy {
			// alternate growth and shrink phases so fan-outs cross every boundary both ways
			if len(tr.Steps)%g.phaseLen == g.phaseLen-1 {
				g.growing = !g.growing
			}
			if g.growing {
				ww[0] *= 3
			} else {
				ww[1] *= 4
			}
		}
		op := ops[r.Weighted(ww)]
		s := Step{T: ti, Op: op}
		s.Lay, s.Pad = lay(g)
		switch op {
		case "ins":
			var k []byte
			if pk, ok := g.presentKey(r); ok && r.Intn(100) < p.overwrite {
				k = pk
			} else if len(g.deleted) > 0 && r.Chance(1, 6) {
				k = pick(r, g.deleted) // re-insert after deletion
			} else {
				k = g.newKey(r, fanHeavy)
			}
			if g.kt.Kind == "collation" && g.m.Conflicts(k) {
				continue
			}
			if g.kt.Kind == "alpha" && o.domain == "main" && g.m.nulRelated(k) {
				continue
			}
			s.K, s.V = k, nextID
			nextID++
			g.m.Put(k, s.V)
		case "del", "get":
			var k []byte
			if pk, ok := g.presentKey(r); ok && r.Intn(100) >= p.absentPct {
				k = pk
			} else {
				k = g.absentKey(r, fanHeavy)
			}
			s.K = k
			if op == "del" {
				if g.m.Del(k) {
					if len(g.deleted) < 256 {
						g.deleted = append(g.deleted, clone(k))
					} else {
						g.deleted[r.Intn(256)] = clone(k)
					}
					if g.m.Len() == 0 {
						// the tree has just been emptied by deletion: from now on it must behave
						// like a new one — ask it everything once
						emit(s)
						emitBattery(ti, g)
						continue
					}
				}
			}
		case "topk", "botk":
			n := g.m.Len()
			s.N = pick(r, []int{0, 1, max(0, n-1), n, n + 1, n + 7, r.Intn(n + 2), r.Intn(n + 2), -1, -2, -3})
		case "all", "back":
			s.N = r.Intn(g.m.Len() + 2)
		case "range":
			a := g.boundKey(r, fanHeavy)
			var b []byte
			switch r.Weighted([]int{55, 10, 10, 25}) {
			case 0:
				b = g.boundKey(r, fanHeavy)
			case 1:
				b = clone(a)
			case 2:
				if g.kt.Kind == "alpha" {
					b = nil // open end
				} else {
					b = g.boundKey(r, fanHeavy)
				}
			default:
				// bounds sharing a long run with each other: a neighbour of a
				if pk, ok := g.presentKey(r); ok {
					a = pk
				}
				b = g.neighbour(r, g.neighbour(r, a))
			}
			if g.kt.Kind == "collation" && len(b) == 0 {
				b = g.boundKey(r, fanHeavy)
				if len(b) == 0 {
					continue
				}
			}
			s.K, s.K2 = a, b
			s.N = r.Intn(g.m.Len() + 2)
		case "prefix":
			s.K = g.prefixQuery(r)
			s.N = r.Intn(g.m.Len() + 2)
		}
		emit(s)
	}
	// one run in four ends by deleting everything (emptied-by-deletion trees),
	// sometimes followed by a second life
	if r.Chance(1, 4) || prop == "C12" && r.Chance(1, 2) {
		for ti, g := range gts {
			if r.Chance(1, 3) {
				continue
			}
			// everything is asked once while the tree is still full (queries may cache
			// things that the emptying must invalidate), then the keys go in random,
			// ascending (maximum last) or descending (minimum last) order
			emitBattery(ti, g)
			order := r.Intn(3)
			for g.m.Len() > 0 {
				idx := r.Intn(g.m.Len())
				switch order {
				case 1:
					idx = 0
				case 2:
					idx = g.m.Len() - 1
				}
				k := g.m.es[idx].orig
				s := Step{T: ti, Op: "del", K: clone(k)}
				s.Lay, s.Pad = lay(g)
				emit(s)
				g.m.Del(k)
				if len(tr.Steps)%7 == 0 {
					emit(Step{T: ti, Op: "size"})
				}
			}
			emitBattery(ti, g)
			// second life. For collation trees the first key may be a byte-different,
			// collation-equivalent spelling of the key deleted last (nothing else is
			// stored, so the collator has nothing to confuse it with)
			if g.kt.Kind == "collation" && len(g.deleted) > 0 && r.Chance(1, 2) {
				last := g.deleted[len(g.deleted)-1]
				if v := collVariant(r, last); v != nil && !g.m.Conflicts(v) {
					emit(Step{T: ti, Op: "ins", K: v, V: nextID})
					g.m.Put(v, nextID)
					nextID++
					emit(Step{T: ti, Op: "get", K: v})
					emit(Step{T: ti, Op: "get", K: clone(last)})
					emit(Step{T: ti, Op: "all"})
					emit(Step{T: ti, Op: "del", K: v})
					g.m.Del(v)
				}
			}
			defer2 := func() { emitBattery(ti, g) }
			n := r.Intn(12)
			if n > 0 {
				defer defer2()
			}
			for j := 0; j < n; j++ {
				k := g.newKey(r, fanHeavy)
				if g.kt.Kind == "collation" && g.m.Conflicts(k) {
					continue
				}
				if g.kt.Kind == "alpha" && o.domain == "main" && g.m.nulRelated(k) {
					continue
				}
				s := Step{T: ti, Op: "ins", K: k, V: nextID}
				s.Lay, s.Pad = lay(g)
				nextID++
				g.m.Put(k, s.V)
				emit(s)
				if r.Chance(1, 3) {
					emit(Step{T: ti, Op: "get", K: k})
				}
				if j < 3 {
					// right after the first keys of the second life: the queries that look at extremes
					emit(Step{T: ti, Op: "max"})
					emit(Step{T: ti, Op: "min"})
					if g.kt.Kind == "alpha" {
						emit(Step{T: ti, Op: "range"}) // Range("", ""): everything up to the largest key
					}
				}
			}
		}
	}
	return tr
}

// collVariant returns a byte-different string with the same collation sort key
// (canonical equivalence, or an ignorable character), or nil.
func collVariant(r *RNG, k []byte) []byte {
	s := string(k)
	pairs := [][2]string{{"\u00e9", "e\u0301"}, {"\u00e8", "e\u0300"}, {"\u00f6", "o\u0308"}, {"\u00fc", "u\u0308"}, {"\u00e5", "a\u030a"}, {"\u00e4", "a\u0308"}, {"\u00f1", "n\u0303"}, {"\u00c9", "E\u0301"}, {"\u00d6", "O\u0308"}}
	for _, p := range pairs {
		for _, d := range [][2]string{{p[0], p[1]}, {p[1], p[0]}} {
			if i := indexOf(s, d[0]); i >= 0 {
				return []byte(s[:i] + d[1] + s[i+len(d[0]):])
			}
		}
	}
	if len(k) == 0 {
		return nil
	}
	// a soft hyphen (completely ignorable) at a rune boundary
	cut := r.Intn(len(k) + 1)
	for cut > 0 && cut < len(k) && !utf8.RuneStart(k[cut]) {
		cut--
	}
	return []byte(s[:cut] + "\u00ad" + s[cut:])
}

func indexOf(s, sub string) int {
	for i := 0; i+len(sub) <= len(s); i++ {
		if s[i:i+len(sub)] == sub {
			return i
		}
	}
	return -1
}

func bytesOf(r *RNG, n int) []byte {
	b := make([]byte, n)
	for i := range b {
		b[i] = byte('a' + r.Intn(3))
	}
	return b
}
