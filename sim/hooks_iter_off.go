//go:build !verifnonode && verifnoiter

package main

import art "github.com/Clement-Jean/go-art"

// Fallback (tag verifnoiter): /repo/verif_node_iter.go does not compile against the
// current tree (a change altered the signature of a traversal helper). C10 runs
// without its enumeration/first/last oracles; find, class, capacity and the raw
// search primitives are still checked.

const hookIter = false
const hookNode = true

func hChildren(h *art.VerifNodeHandle) []int         { return nil }
func hChildrenBackward(h *art.VerifNodeHandle) []int { return nil }
func hFirst(h *art.VerifNodeHandle) int              { return 0 }
func hLast(h *art.VerifNodeHandle) int               { return 0 }
