package main

import (
	"fmt"
	"os"
	"runtime"
	"runtime/debug"
	"strings"
	"sync"
)

// ---- C16: real goroutines, a seeded baton schedule the race detector cannot see ----
//
// Trace mode "race". Goroutine 0 is the spawning goroutine: the leading steps
// with G==0 (the build phase of shared trees) run before anything is spawned.
// After that every step i is executed by goroutine owner(i) in 1..Gs, strictly
// one at a time in trace order. A non-shared tree T belongs to goroutine
// 1+T%Gs and is touched by nobody else; a shared tree is only read.
//
// The baton (the index of the next step) lives in a word accessed only by
// assembly stubs; waiting is a Gosched spin. The detector therefore sees no
// synchronisation between the goroutines except what the library does itself
// (sync.Pool) — any pair of conflicting accesses not ordered by the library is
// reported, whatever the physical timing, while results stay deterministic.

var batonTurn int32

//go:norace
func waitTurn(i int) {
	for load32(&batonTurn) != int32(i) {
		runtime.Gosched()
	}
}

func (e *Exec) raceOwner(i int, s *Step) int {
	gs := max(1, e.tr.Gs)
	if s.T >= 0 && s.T < len(e.trees) && !e.trees[s.T].cfg.Shared {
		return 1 + s.T%gs
	}
	if s.G >= 1 && s.G <= gs {
		return s.G
	}
	return 1 + i%gs
}

func mutatingOp(op string) bool { return op == "ins" || op == "del" }

func raceLogPath() string {
	for _, kv := range strings.Fields(os.Getenv("GORACE")) {
		if strings.HasPrefix(kv, "log_path=") {
			return fmt.Sprintf("%s.%d", strings.TrimPrefix(kv, "log_path="), os.Getpid())
		}
	}
	return ""
}

func raceLogSize() int64 {
	p := raceLogPath()
	if p == "" {
		return 0
	}
	st, err := os.Stat(p)
	if err != nil {
		return 0
	}
	return st.Size()
}

func raceLogFrom(off int64) string {
	p := raceLogPath()
	if p == "" {
		return ""
	}
	b, err := os.ReadFile(p)
	if err != nil || int64(len(b)) <= off {
		return ""
	}
	return string(b[off:])
}

func (e *Exec) runRace() *Violation {
	runtime.GC()
	runtime.GC()
	logStart := raceLogSize()
	gs := max(1, e.tr.Gs)
	steps := e.tr.Steps
	// build phase
	first := 0
	for first < len(steps) && steps[first].G == 0 && steps[first].T >= 0 {
		s := &steps[first]
		e.st.Steps++
		if s.T < len(e.trees) {
			if v, stop := e.treeStep(first, s); v != nil || stop {
				return v
			}
		}
		first++
	}
	for _, ts := range e.trees {
		if ts.cfg.Shared {
			if b := ts.api.Buf(); b != nil {
				b.noTrack = true
			}
			e.st.Probes["shared_tree_keys"] += ts.m.Len()
		}
	}
	subs := make([]*Exec, gs+1)
	results := make([]*Violation, gs+1)
	for g := 1; g <= gs; g++ {
		subs[g] = &Exec{tr: e.tr, prop: e.prop, or: e.or, trees: e.trees, st: newRunStats(), known: e.known, lim: e.lim, inRace: true}
	}
	store32(&batonTurn, int32(first))
	var wg sync.WaitGroup
	for g := 1; g <= gs; g++ {
		wg.Add(1)
		go func(g int) {
			defer wg.Done()
			debug.SetPanicOnFault(true)
			sub := subs[g]
			failed := false
			for i := first; i < len(steps); i++ {
				s := &steps[i]
				if sub.raceOwner(i, s) != g {
					continue
				}
				waitTurn(i)
				if !failed {
					sub.st.Steps++
					switch {
					case s.T < 0:
						sub.envEvent(s.Op)
					case s.T >= len(sub.trees):
					case sub.trees[s.T].cfg.Shared && mutatingOp(s.Op):
						sub.st.Skipped["shared-tree-is-read-only"]++
					default:
						v, stop := sub.treeStep(i, s)
						if v != nil || stop {
							results[g] = v
							failed = true
						}
						if sub.trees[s.T].cfg.Shared {
							sub.st.Probes["shared_reads"]++
						}
					}
				}
				store32(&batonTurn, int32(i+1))
			}
		}(g)
	}
	wg.Wait()
	for g := 1; g <= gs; g++ {
		addMap(e.st.Ops, subs[g].st.Ops)
		addMap(e.st.Events, subs[g].st.Events)
		addMap(e.st.Probes, subs[g].st.Probes)
		addMap(e.st.Skipped, subs[g].st.Skipped)
		e.st.Steps += subs[g].st.Steps
		e.st.Mutations += subs[g].st.Mutations
		e.st.Upstream += subs[g].st.Upstream
		e.tx = mix2(e.tx, subs[g].tx)
	}
	e.st.Probes[fmt.Sprintf("goroutines_%d", gs)]++
	// the detector's verdict for this run
	if rep := raceLogFrom(logStart); strings.Contains(rep, "DATA RACE") {
		class := "race"
		if !strings.Contains(rep, "Clement-Jean/go-art") && !strings.Contains(rep, "/repo/") {
			class = "harness-race"
		}
		return &Violation{Prop: e.prop, Class: class, Oracle: "C16-race-detector", Step: -1, Detail: "the race detector reported: " + firstRaceLines(rep)}
	}
	for g := 1; g <= gs; g++ {
		if results[g] != nil {
			results[g].Oracle = "C16-sequential-" + results[g].Oracle
			return results[g]
		}
	}
	return e.finalSweep()
}

func firstRaceLines(rep string) string {
	var keep []string
	for _, ln := range strings.Split(rep, "\n") {
		t := strings.TrimSpace(ln)
		if t == "" || strings.HasPrefix(t, "====") {
			continue
		}
		if strings.HasPrefix(t, "WARNING") || strings.HasPrefix(t, "Write at") || strings.HasPrefix(t, "Read at") || strings.HasPrefix(t, "Previous") || strings.Contains(t, "go-art") || strings.Contains(t, "/repo/") {
			keep = append(keep, t)
		}
		if len(keep) >= 14 {
			break
		}
	}
	return strings.Join(keep, " | ")
}

// ---- generator ----

func genRaceTrace(seed uint64, run int, o genOpts) *Trace {
	r := NewRNG(mix2(mix2(seed, hashStr("C16/"+o.domain)), uint64(run)))
	p := profileFor("C16")
	tr := &Trace{Prop: "C16", Seed: seed, Run: run, Domain: o.domain, Mode: "race"}
	gs := r.Range(2, 8)
	tr.Gs = gs
	shared := run%2 == 1 // W2: shared readers; W1: independent trees
	var gts []*genTree
	nextID := uint64(1)
	lim := o.lim
	if shared {
		kind := pick(r, []string{"alpha", "alpha", "unsigned", "signed", "float", "compound"})
		kt := chooseKeyType(r, kind, run, false)
		tr.Trees = append(tr.Trees, TreeCfg{Key: kt, Val: pick(r, []string{"i64", "ptr", "str"}), Shared: true})
		g := newGenTree(r, kt, "i64", lim)
		gts = append(gts, g)
		n := r.Range(1, 400)
		fan := r.Chance(1, 2)
		for i := 0; i < n; i++ {
			k := g.newKey(r, fan)
			if kt.Kind == "alpha" && g.m.nulRelated(k) {
				continue
			}
			tr.Steps = append(tr.Steps, Step{T: 0, Op: "ins", K: k, V: nextID, G: 0})
			g.m.Put(k, nextID)
			nextID++
		}
	}
	// private trees: one or two per goroutine, mixed kinds, collation included
	nPriv := gs
	if r.Chance(1, 3) {
		nPriv = 2 * gs
	}
	if shared && r.Chance(1, 2) {
		nPriv = 0
	}
	base := len(tr.Trees)
	for j := 0; j < nPriv; j++ {
		kind := allKinds[(run+j)%len(allKinds)]
		kt := chooseKeyType(r, kind, run+j, false)
		tr.Trees = append(tr.Trees, TreeCfg{Key: kt, Val: pick(r, []string{"i64", "i64", "ptr", "str", "big"})})
		gts = append(gts, newGenTree(r, kt, "i64", lim))
	}
	_ = base
	budget := r.Range(40, 400)
	if o.tier == "thorough" && r.Chance(1, 4) {
		budget = r.Range(400, 2000)
	}
	ops := []string{"ins", "del", "get", "min", "max", "size", "all", "back", "topk", "botk", "range", "prefix"}
	w := p.w
	start := len(tr.Steps)
	for len(tr.Steps)-start < budget {
		ti := r.Intn(len(tr.Trees))
		cfg := tr.Trees[ti]
		g := gts[ti]
		ww := []int{w.ins, w.del, w.get, w.min, w.max, w.size, w.all, w.back, w.topk, w.botk, w.rng, w.prefix}
		if cfg.Shared {
			ww = []int{0, 0, 40, 6, 6, 4, 8, 6, 5, 5, 12, 8}
		}
		if !g.kt.HasPrefix() {
			ww[11] = 0
		}
		if g.kt.Kind == "collation" {
			ww[10] = 0
		}
		op := ops[r.Weighted(ww)]
		s := Step{T: ti, Op: op}
		if cfg.Shared {
			s.G = r.Range(1, gs)
		} else {
			s.G = 1 + ti%gs
		}
		switch op {
		case "ins":
			var k []byte
			if pk, ok := g.presentKey(r); ok && r.Intn(100) < 15 {
				k = pk
			} else {
				k = g.newKey(r, true)
			}
			if g.kt.Kind == "collation" && g.m.Conflicts(k) {
				continue
			}
			if g.kt.Kind == "alpha" && g.m.nulRelated(k) {
				continue
			}
			s.K, s.V = k, nextID
			nextID++
			g.m.Put(k, s.V)
		case "del", "get":
			var k []byte
			if pk, ok := g.presentKey(r); ok && r.Intn(100) >= 35 {
				k = pk
			} else {
				k = g.absentKey(r, true)
			}
			s.K = k
			if op == "del" {
				g.m.Del(k)
			}
		case "topk", "botk":
			s.N = r.Intn(g.m.Len() + 3)
		case "range":
			s.K, s.K2 = g.boundKey(r, false), g.boundKey(r, false)
			if g.kt.Kind == "alpha" && r.Chance(1, 8) {
				s.K2 = nil
			}
		case "prefix":
			s.K = g.prefixQuery(r)
		}
		tr.Steps = append(tr.Steps, s)
	}
	return tr
}
