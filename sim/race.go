package main

import (
	"fmt"
	"os"
	"runtime"
	"runtime/debug"
	"strings"
	"sync"
	"time"
)

// ---- C16: real goroutines, a seeded baton schedule the race detector cannot see ----
//
// Trace mode "race". Goroutine 0 is the spawning goroutine: the leading steps
// with G==0 (the build phase of shared trees) run before anything is spawned.
// After that every step i is executed by goroutine owner(i) in 1..Gs, strictly
// one at a time in trace order. A non-shared tree T belongs to goroutine
// 1+T%Gs and is touched by nobody else; a shared tree is only read.
//
// The baton (the index of the next step) lives in a word accessed only by
// assembly stubs; waiting is a Gosched spin. The detector therefore sees no
// synchronisation between the goroutines except what the library does itself
// (sync.Pool) — any pair of conflicting accesses not ordered by the library is
// reported, whatever the physical timing, while results stay deterministic.

var batonTurn int32

// raceStall is set when a goroutine that was given the baton does not hand it
// back (it blocks for real — only possible if a change adds a lock to the
// library and the suspended goroutine holds it). Everybody then stops: the run
// is inconclusive, never a violation.
var raceStall int32

//go:norace
func waitTurn(i int) bool {
	for load32(&batonTurn) != int32(i) {
		if load32(&raceStall) != 0 {
			return false
		}
		runtime.Gosched()
	}
	return load32(&raceStall) == 0
}

// waitBack waits for the baton to come back to step i after an interruption;
// gives up (and declares the run stalled) after a few seconds of real time.
//
//go:norace
func waitBack(i int) {
	start := time.Now()
	n := 0
	for load32(&batonTurn) != -int32(i+1) {
		runtime.Gosched()
		n++
		if n&0x3FF == 0 && (load32(&raceStall) != 0 || time.Since(start) > 5*time.Second) {
			store32(&raceStall, 1)
			return
		}
	}
}

// ---- statement-level baton passing (thorough tier, instrumented copy) ----
//
// At a chosen statement point inside an operation the running goroutine hands
// the baton to the goroutine owning the next foreign step, lets it execute that
// whole step, and takes the baton back: two operations of different goroutines
// interleaved at statement granularity, still strictly serial and replayable.
// All scheduler state shared between goroutines is touched only inside
// go:norace functions or through the assembly stubs.

// a bounded record of where a statement was reached during the counting pass
const pointSample = 48

type pointAt struct{ ord, step int }

type pointOcc struct {
	n  int
	at []pointAt
}

type raceG struct {
	id      int
	occ     []pointOcc // first pass only: per statement id, how often it was reached and a bounded sample of where
	rs      uint64     // reservoir-sampling state
	record  bool
	yieldTo []int // per yield: run the owner of that step ahead up to and including it (0 = just the next foreign step)
	pointN  int
	yields  []int // ordinals (n-th point reached by this goroutine) at which to yield, ascending
	yi      int
	curStep int
	fired   int
}

var (
	raceCurG     *raceG
	raceDone     []int32
	raceIntRet   int32
	raceSteps    []Step
	raceOwnerOf  []int32
)

//go:norace
func raceSetCur(g *raceG) { raceCurG = g }

// passBaton hands the baton to the next step that has not already been executed
// ahead of its turn.
//
//go:norace
func passBaton(i int) {
	k := i + 1
	for k < len(raceDone) && load32(&raceDone[k]) != 0 {
		k++
	}
	store32(&batonTurn, int32(k))
}

//go:norace
func racePointHook(id int) {
	g := raceCurG
	if g == nil {
		return
	}
	n := g.pointN
	g.pointN++
	if g.record {
		if id >= len(g.occ) {
			g.occ = append(g.occ, make([]pointOcc, id+1-len(g.occ))...)
		}
		o := &g.occ[id]
		o.n++
		if len(o.at) < pointSample {
			o.at = append(o.at, pointAt{ord: n, step: g.curStep})
		} else {
			// reservoir: every occurrence is kept with probability pointSample/o.n
			g.rs ^= g.rs << 13
			g.rs ^= g.rs >> 7
			g.rs ^= g.rs << 17
			if j := int(g.rs % uint64(o.n)); j < pointSample {
				o.at[j] = pointAt{ord: n, step: g.curStep}
			}
		}
	}
	if g.yi >= len(g.yields) || g.yields[g.yi] != n {
		return
	}
	to := 0
	if g.yi < len(g.yieldTo) {
		to = g.yieldTo[g.yi]
	}
	for g.yi < len(g.yields) && g.yields[g.yi] <= n {
		g.yi++
	}
	if load32(&raceIntRet) != 0 {
		return // already inside an interrupting step: no nesting
	}
	i := g.curStep
	if to > i && to < len(raceOwnerOf) && int(raceOwnerOf[to]) != g.id {
		// targeted: let the owner of step `to` run ahead through that step, so that
		// it executes the same statement this goroutine is suspended at
		h := raceOwnerOf[to]
		for k := i + 1; k <= to; k++ {
			if raceOwnerOf[k] == h && load32(&raceDone[k]) == 0 {
				g.fired++
				store32(&raceIntRet, int32(i+1))
				store32(&batonTurn, int32(k))
				waitBack(i)
				if load32(&raceStall) != 0 {
					break
				}
			}
		}
		raceCurG = g
		return
	}
	j := -1
	for k := i + 1; k < len(raceOwnerOf); k++ {
		if int(raceOwnerOf[k]) != g.id && load32(&raceDone[k]) == 0 {
			j = k
			break
		}
	}
	if j < 0 {
		return
	}
	g.fired++
	store32(&raceIntRet, int32(i+1))
	store32(&batonTurn, int32(j))
	waitBack(i)
	raceCurG = g
}

func (e *Exec) raceOwner(i int, s *Step) int {
	gs := max(1, e.tr.Gs)
	if s.T >= 0 && s.T < len(e.trees) && !e.trees[s.T].cfg.Shared {
		return 1 + s.T%gs
	}
	if s.G >= 1 && s.G <= gs {
		return s.G
	}
	return 1 + i%gs
}

func mutatingOp(op string) bool { return op == "ins" || op == "del" }

func raceLogPath() string {
	for _, kv := range strings.Fields(os.Getenv("GORACE")) {
		if strings.HasPrefix(kv, "log_path=") {
			return fmt.Sprintf("%s.%d", strings.TrimPrefix(kv, "log_path="), os.Getpid())
		}
	}
	return ""
}

func raceLogSize() int64 {
	p := raceLogPath()
	if p == "" {
		return 0
	}
	st, err := os.Stat(p)
	if err != nil {
		return 0
	}
	return st.Size()
}

func raceLogFrom(off int64) string {
	p := raceLogPath()
	if p == "" {
		return ""
	}
	b, err := os.ReadFile(p)
	if err != nil || int64(len(b)) <= off {
		return ""
	}
	return string(b[off:])
}

func (e *Exec) runRace() *Violation {
	runtime.GC()
	runtime.GC()
	logStart := raceLogSize()
	gs := max(1, e.tr.Gs)
	steps := e.tr.Steps
	// build phase: mutations only. No query touches a shared tree before the
	// readers start, so that state a query fills in lazily is first filled by them.
	savedOr := e.or
	e.or = 0
	defer func() { e.or = savedOr }()
	first := 0
	for first < len(steps) && steps[first].G == 0 && steps[first].T >= 0 {
		s := &steps[first]
		e.st.Steps++
		if s.T < len(e.trees) {
			if v, stop := e.treeStep(first, s); v != nil || stop {
				return v
			}
		}
		first++
	}
	e.or = savedOr
	for _, ts := range e.trees {
		if ts.cfg.Shared {
			ts.api.Freeze()
			if b := ts.api.Buf(); b != nil {
				b.noTrack = true
			}
			e.st.Probes["shared_tree_keys"] += ts.m.Len()
		}
	}
	subs := make([]*Exec, gs+1)
	results := make([]*Violation, gs+1)
	for g := 1; g <= gs; g++ {
		subs[g] = &Exec{tr: e.tr, prop: e.prop, or: e.or, trees: e.trees, st: newRunStats(), known: e.known, lim: e.lim, inRace: true}
	}
	// scheduler tables (read-only once the goroutines run, except through asm)
	raceDone = make([]int32, len(steps))
	raceOwnerOf = make([]int32, len(steps))
	for i := range steps {
		raceOwnerOf[i] = int32(e.raceOwner(i, &steps[i]))
	}
	for i := 0; i < first; i++ {
		raceOwnerOf[i] = 0
		raceDone[i] = 1
	}
	store32(&raceIntRet, 0)
	store32(&raceStall, 0)
	gstate := make([]*raceG, gs+1)
	for g := 1; g <= gs; g++ {
		gstate[g] = &raceG{id: g, record: e.recordPoints, rs: 0x9E3779B97F4A7C15 ^ uint64(g)*0xD6E8FEB86659FD93}
		type yt struct{ nth, to int }
		var ys []yt
		for _, p := range e.tr.Points {
			if p.G == g && p.Act == "yield" {
				ys = append(ys, yt{p.Nth, p.To})
			}
		}
		for a := 1; a < len(ys); a++ {
			for b := a; b > 0 && ys[b-1].nth > ys[b].nth; b-- {
				ys[b-1], ys[b] = ys[b], ys[b-1]
			}
		}
		for _, y := range ys {
			gstate[g].yields = append(gstate[g].yields, y.nth)
			gstate[g].yieldTo = append(gstate[g].yieldTo, y.to)
		}
	}
	if pointsAvailable {
		raceSetCur(nil)
		setPointHook(racePointHook)
		defer setPointHook(nil)
	}
	store32(&batonTurn, int32(first))
	var wg sync.WaitGroup
	for g := 1; g <= gs; g++ {
		wg.Add(1)
		go func(g int) {
			defer wg.Done()
			debug.SetPanicOnFault(true)
			sub := subs[g]
			me := gstate[g]
			failed := false
			for i := first; i < len(steps); i++ {
				s := &steps[i]
				if int(raceOwnerOf[i]) != g {
					continue
				}
				if !waitTurn(i) {
					break // the run has stalled: stop everything
				}
				if load32(&raceDone[i]) != 0 {
					// executed ahead of its turn, inside another goroutine's operation
					passBaton(i)
					continue
				}
				me.curStep = i
				raceSetCur(me)
				if !failed {
					sub.st.Steps++
					switch {
					case s.T < 0:
						sub.envEvent(s.Op)
					case s.T >= len(sub.trees):
					case sub.trees[s.T].cfg.Shared && mutatingOp(s.Op):
						sub.st.Skipped["shared-tree-is-read-only"]++
					default:
						v, stop := sub.treeStep(i, s)
						if v != nil || stop {
							results[g] = v
							failed = true
						}
						if sub.trees[s.T].cfg.Shared {
							sub.st.Probes["shared_reads"]++
						}
					}
				}
				raceSetCur(nil)
				if r := load32(&raceIntRet); r != 0 {
					// this step ran as an interruption of step r-1: give the baton back
					store32(&raceDone[i], 1)
					store32(&raceIntRet, 0)
					store32(&batonTurn, -r)
				} else {
					passBaton(i)
				}
			}
		}(g)
	}
	wg.Wait()
	for g := 1; g <= gs; g++ {
		e.racePoints = append(e.racePoints, gstate[g].pointN)
		e.racePointOcc = append(e.racePointOcc, gstate[g].occ)
		if gstate[g].fired > 0 {
			e.st.Events["point_yield"] += gstate[g].fired
		}
	}
	for g := 1; g <= gs; g++ {
		addMap(e.st.Ops, subs[g].st.Ops)
		addMap(e.st.Events, subs[g].st.Events)
		addMap(e.st.Probes, subs[g].st.Probes)
		addMap(e.st.Skipped, subs[g].st.Skipped)
		e.st.Steps += subs[g].st.Steps
		e.st.Mutations += subs[g].st.Mutations
		e.st.Upstream += subs[g].st.Upstream
		e.tx = mix2(e.tx, subs[g].tx)
	}
	e.st.Probes[fmt.Sprintf("goroutines_%d", gs)]++
	if load32(&raceStall) != 0 {
		// not a verdict about the library: a goroutine blocked for real while another was parked
		e.st.Probes["runs_stalled_inconclusive"]++
		e.st.Upstream++
		return nil
	}
	// the detector's verdict for this run
	if rep := raceLogFrom(logStart); strings.Contains(rep, "DATA RACE") {
		class := "race"
		if !strings.Contains(rep, "Clement-Jean/go-art") && !strings.Contains(rep, "/repo/") {
			class = "harness-race"
		}
		return &Violation{Prop: e.prop, Class: class, Oracle: "C16-race-detector", Step: -1, Detail: "the race detector reported: " + firstRaceLines(rep)}
	}
	for g := 1; g <= gs; g++ {
		if results[g] != nil {
			results[g].Oracle = "C16-sequential-" + results[g].Oracle
			return results[g]
		}
	}
	return e.finalSweep()
}

func firstRaceLines(rep string) string {
	var keep []string
	for _, ln := range strings.Split(rep, "\n") {
		t := strings.TrimSpace(ln)
		if t == "" || strings.HasPrefix(t, "====") {
			continue
		}
		if strings.HasPrefix(t, "WARNING") || strings.HasPrefix(t, "Write at") || strings.HasPrefix(t, "Read at") || strings.HasPrefix(t, "Previous") || strings.Contains(t, "go-art") || strings.Contains(t, "/repo/") {
			keep = append(keep, t)
		}
		if len(keep) >= 14 {
			break
		}
	}
	return strings.Join(keep, " | ")
}

// ---- generator ----

// tameForRace keeps key material small in race runs: under the race detector
// every byte costs several bytes of shadow memory, and kilobyte keys add nothing
// to what the schedule explores.
func tameForRace(g *genTree) {
	for i := range g.runs {
		if len(g.runs[i]) > 140 {
			g.runs[i] = g.runs[i][:140]
		}
	}
	if len(g.fanPfx) > 140 {
		g.fanPfx = g.fanPfx[:140]
	}
	for i := range g.collPfx {
		if len(g.collPfx[i]) > 60 {
			g.collPfx[i] = g.collPfx[i][:60]
		}
	}
	if len(g.longStr) > 60 {
		g.longStr = g.longStr[:60]
	}
	g.huge, g.long = false, false
}

func genRaceTrace(seed uint64, run int, o genOpts) *Trace {
	r := NewRNG(mix2(mix2(seed, hashStr("C16/"+o.domain)), uint64(run)))
	p := profileFor("C16")
	tr := &Trace{Prop: "C16", Seed: seed, Run: run, Domain: o.domain, Mode: "race"}
	gs := r.Range(2, 8)
	tr.Gs = gs
	shared := run%2 == 1 // W2: shared readers; W1: independent trees
	var gts []*genTree
	nextID := uint64(1)
	lim := o.lim
	if shared {
		kind := pick(r, []string{"alpha", "alpha", "unsigned", "signed", "float", "compound"})
		kt := chooseKeyType(r, kind, run, false)
		tr.Trees = append(tr.Trees, TreeCfg{Key: kt, Val: pick(r, []string{"i64", "ptr", "str"}), Shared: true})
		g := newGenTree(r, kt, "i64", lim)
		tameForRace(g)
		gts = append(gts, g)
		n := r.Range(1, 400)
		fan := r.Chance(1, 2)
		for i := 0; i < n; i++ {
			k := g.newKey(r, fan)
			if kt.Kind == "alpha" && g.m.nulRelated(k) {
				continue
			}
			tr.Steps = append(tr.Steps, Step{T: 0, Op: "ins", K: k, V: nextID, G: 0})
			g.m.Put(k, nextID)
			nextID++
		}
		// the shared tree has a history too: half of the time one node is driven to a
		// wide fan-out and drained again (nodes that went through shrinks), and some
		// keys are deleted, all before the readers start
		if r.Chance(2, 3) && kt.Kind != "compound" {
			wide := pick(r, []int{20, 50, 60, 60, 256})
			keep := pick(r, []int{2, 12, 13, 36, 37, 37, 37, 38})
			lowPfx := r.Chance(1, 2) // put the wide node on the left-most or the right-most spine
			mk := func(x int) []byte {
				if kt.Kind == "alpha" {
					p := byte(0x01)
					if !lowPfx {
						p = 0xFE
					}
					return append(append([]byte{p}, g.fanPfx...), byte(x), 's')
				}
				b := g.bases[0] &^ 0xFF
				if lowPfx {
					b = 0
				}
				return u64bytes(normField(kt.T, false, b|uint64(x)))
			}
			var xs []int
			for x := 0; x < wide; x++ {
				k := mk(x)
				if kt.Kind == "alpha" && g.m.nulRelated(k) {
					continue
				}
				if _, ok := g.m.Get(k); ok {
					continue
				}
				tr.Steps = append(tr.Steps, Step{T: 0, Op: "ins", K: k, V: nextID, G: 0})
				g.m.Put(k, nextID)
				nextID++
				xs = append(xs, x)
			}
			// drain from the low end, from the high end, or randomly
			mode := pick(r, []int{0, 0, 1, 1, 2})
			for len(xs) > keep {
				j := 0
				switch mode {
				case 1:
					j = len(xs) - 1
				case 2:
					j = r.Intn(len(xs))
				}
				k := mk(xs[j])
				xs = append(xs[:j], xs[j+1:]...)
				tr.Steps = append(tr.Steps, Step{T: 0, Op: "del", K: k, G: 0})
				g.m.Del(k)
			}
		}
		for i := 0; i < n/8; i++ {
			if pk, ok := g.presentKey(r); ok {
				tr.Steps = append(tr.Steps, Step{T: 0, Op: "del", K: clone(pk), G: 0})
				g.m.Del(pk)
			}
		}
	}
	// private trees: one or two per goroutine, mixed kinds, collation included
	nPriv := gs
	if r.Chance(1, 3) {
		nPriv = 2 * gs
	}
	if shared && r.Chance(1, 2) {
		nPriv = 0
	}
	base := len(tr.Trees)
	for j := 0; j < nPriv; j++ {
		kind := allKinds[(run+j)%len(allKinds)]
		kt := chooseKeyType(r, kind, run+j, false)
		tr.Trees = append(tr.Trees, TreeCfg{Key: kt, Val: pick(r, []string{"i64", "i64", "ptr", "str", "big"})})
		pg := newGenTree(r, kt, "i64", lim)
		tameForRace(pg)
		gts = append(gts, pg)
	}
	_ = base
	budget := r.Range(40, 400)
	if o.tier == "thorough" && r.Chance(1, 4) {
		budget = r.Range(400, 2000)
	}
	if !shared && (run%4 == 2 || (o.churnBias && run%2 == 0)) && nPriv > 0 {
		// pool churn: every private tree drives one node up and down across the
		// size-class boundaries, in bursts, so a node released by one goroutine's
		// tree is the next one another goroutine's tree acquires
		type churn struct {
			have   []int
			target int
			grow   bool
			next   int
		}
		cs := make([]*churn, len(tr.Trees))
		for i := range cs {
			cs[i] = &churn{grow: true, target: pick(r, []int{6, 18, 18, 50, 50, 70})}
		}
		mkKey := func(ti, x int) []byte {
			g := gts[ti]
			switch g.kt.Kind {
			case "alpha":
				return append(clone(g.fanPfx), byte(x), 'c')
			case "collation":
				return []byte(string(rune(0x4E00 + x)))
			case "compound":
				k := g.newNumKey(r)
				copy(k[0:8], u64bytes(normField(g.kt.Schema[0], false, uint64(x))))
				if fieldBits(g.kt.Schema[0], false) == 8 {
					return k
				}
				return k
			}
			return u64bytes(normField(g.kt.T, false, (g.bases[0]&^0xFF)|uint64(x)))
		}
		total := r.Range(300, 900)
		if o.tier == "thorough" {
			total = r.Range(600, 2500)
		}
		for n := 0; n < total; {
			ti := base + r.Intn(nPriv)
			c, g := cs[ti], gts[ti]
			burst := r.Range(1, 10)
			for b := 0; b < burst; b++ {
				if c.grow && len(c.have) >= c.target {
					c.grow = false
					c.target = pick(r, []int{1, 2, 3, 11, 12, 13, 36, 37})
				} else if !c.grow && len(c.have) <= c.target {
					c.grow = true
					c.target = pick(r, []int{5, 6, 17, 18, 49, 50, 60})
				}
				s := Step{T: ti, G: 1 + ti%gs}
				if c.grow {
					x := c.next % 256
					c.next++
					k := mkKey(ti, x)
					if g.kt.Kind == "collation" && g.m.Conflicts(k) {
						continue
					}
					if g.kt.Kind == "alpha" && g.m.nulRelated(k) {
						continue
					}
					if _, ok := g.m.Get(k); ok {
						continue
					}
					s.Op, s.K, s.V = "ins", k, nextID
					nextID++
					g.m.Put(k, s.V)
					c.have = append(c.have, x)
				} else {
					if len(c.have) == 0 {
						c.grow = true
						continue
					}
					j := r.Intn(len(c.have))
					k := mkKey(ti, c.have[j])
					c.have = append(c.have[:j], c.have[j+1:]...)
					if g.kt.Kind == "compound" {
						// the tuple's later fields were random: delete by what the model holds
						if pk, ok := g.presentKey(r); ok {
							k = pk
						}
					}
					s.Op, s.K = "del", k
					g.m.Del(k)
				}
				tr.Steps = append(tr.Steps, s)
				n++
			}
			if r.Chance(1, 6) {
				if pk, ok := g.presentKey(r); ok {
					tr.Steps = append(tr.Steps, Step{T: ti, G: 1 + ti%gs, Op: "get", K: pk})
				}
			}
		}
		return tr
	}
	ops := []string{"ins", "del", "get", "min", "max", "size", "all", "back", "topk", "botk", "range", "prefix"}
	w := p.w
	start := len(tr.Steps)
	for len(tr.Steps)-start < budget {
		ti := r.Intn(len(tr.Trees))
		cfg := tr.Trees[ti]
		g := gts[ti]
		ww := []int{w.ins, w.del, w.get, w.min, w.max, w.size, w.all, w.back, w.topk, w.botk, w.rng, w.prefix}
		if cfg.Shared {
			ww = []int{0, 0, 40, 6, 6, 4, 8, 6, 5, 5, 12, 8}
		}
		if !g.kt.HasPrefix() {
			ww[11] = 0
		}
		if g.kt.Kind == "collation" {
			ww[10] = 0
		}
		op := ops[r.Weighted(ww)]
		s := Step{T: ti, Op: op}
		if cfg.Shared {
			s.G = r.Range(1, gs)
		} else {
			s.G = 1 + ti%gs
		}
		switch op {
		case "ins":
			var k []byte
			if pk, ok := g.presentKey(r); ok && r.Intn(100) < 15 {
				k = pk
			} else {
				k = g.newKey(r, true)
			}
			if g.kt.Kind == "collation" && g.m.Conflicts(k) {
				continue
			}
			if g.kt.Kind == "alpha" && g.m.nulRelated(k) {
				continue
			}
			s.K, s.V = k, nextID
			nextID++
			g.m.Put(k, s.V)
		case "del", "get":
			var k []byte
			if pk, ok := g.presentKey(r); ok && r.Intn(100) >= 35 {
				k = pk
			} else {
				k = g.absentKey(r, true)
			}
			s.K = k
			if op == "del" {
				g.m.Del(k)
			}
		case "topk", "botk":
			s.N = r.Intn(g.m.Len() + 3)
		case "range":
			s.K, s.K2 = g.boundKey(r, false), g.boundKey(r, false)
			if g.kt.Kind == "alpha" && r.Chance(1, 8) {
				s.K2 = nil
			}
		case "prefix":
			s.K = g.prefixQuery(r)
		}
		tr.Steps = append(tr.Steps, s)
	}
	return tr
}

func sortInts(a []int) {
	for i := 1; i < len(a); i++ {
		for j := i; j > 0 && a[j-1] > a[j]; j-- {
			a[j-1], a[j] = a[j], a[j-1]
		}
	}
}
