package main

import (
	"bytes"
	"encoding/binary"
	"fmt"
	"sort"

)

// ---- structural oracle (C11) and raw digest (C15) over the hook's dump ----

type leafInfo struct {
	tkey []byte
	key  []byte
	id   uint64
	idOK bool
}

type shapeStats struct {
	inner   int
	leaves  int
	classes [4]int // 4,16,48,256
	maxPath int    // longest compressed path seen
	full256 bool   // a 256-class node holding 256 children
}

func classIdx(c int) int {
	switch c {
	case 4:
		return 0
	case 16:
		return 1
	case 48:
		return 2
	case 256:
		return 3
	}
	return -1
}

type shapeChk struct {
	lim    int
	valID  func(any) (uint64, bool)
	st     shapeStats
	kf256  bool // known-finding condition met: class 256 ∧ 256 children ∧ recorded 0
	shapeH uint64
	classH uint64
}

func (c *shapeChk) mixShape(x uint64) { c.shapeH = mix2(c.shapeH, x) }
func (c *shapeChk) mixClass(x uint64) { c.classH = mix2(c.classH, x) }

// collect returns the leaves below n in the library's own enumeration order.
func (c *shapeChk) collect(n *VNode, out *[]leafInfo) error {
	if n == nil {
		return fmt.Errorf("live slot holds a nil child")
	}
	if n.Leaf {
		id, ok := c.valID(n.Value)
		*out = append(*out, leafInfo{tkey: n.TKey, key: n.Key, id: id, idOK: ok})
		return nil
	}
	for i := range n.Slots {
		s := &n.Slots[i]
		if !s.Live {
			continue
		}
		if err := c.collect(s.Child, out); err != nil {
			return err
		}
	}
	return nil
}

// verify checks node n, whose keys have already consumed depth bytes.
func (c *shapeChk) verify(n *VNode, depth int) ([]leafInfo, error) {
	if n == nil {
		return nil, fmt.Errorf("nil node at depth %d", depth)
	}
	if n.Leaf {
		c.st.leaves++
		c.mixShape(0x1eaf)
		if len(n.TKey) < depth {
			return nil, fmt.Errorf("leaf %x shorter than its depth %d", n.TKey, depth)
		}
		id, ok := c.valID(n.Value)
		return []leafInfo{{tkey: n.TKey, key: n.Key, id: id, idOK: ok}}, nil
	}
	c.st.inner++
	ci := classIdx(n.Class)
	if ci < 0 {
		return nil, fmt.Errorf("inner node with unknown class %d", n.Class)
	}
	c.st.classes[ci]++
	c.mixClass(uint64(n.Class))

	var live []*VSlot
	for i := range n.Slots {
		if n.Slots[i].Live {
			live = append(live, &n.Slots[i])
		}
	}
	// (e) recorded fan-out == real number of children, fits the class
	real := len(live)
	if real > n.Class {
		return nil, fmt.Errorf("class %d node holds %d children", n.Class, real)
	}
	if n.ChildrenLen != real {
		if n.Class == 256 && real == 256 && n.ChildrenLen == 0 {
			c.kf256 = true
		} else {
			return nil, fmt.Errorf("class %d node records fan-out %d but has %d children", n.Class, n.ChildrenLen, real)
		}
	}
	if real == 256 {
		c.st.full256 = true
	}
	// (d) at least two children, distinct ascending bytes
	if real < 2 {
		return nil, fmt.Errorf("class %d node at depth %d has %d child(ren)", n.Class, depth, real)
	}
	for i, s := range live {
		if !s.NonNil || s.Child == nil {
			return nil, fmt.Errorf("class %d node: live slot %d (byte %#x) is nil", n.Class, s.Index, s.Byte)
		}
		if i > 0 && live[i-1].Byte >= s.Byte {
			return nil, fmt.Errorf("class %d node: branch bytes not strictly ascending (%#x then %#x)", n.Class, live[i-1].Byte, s.Byte)
		}
	}
	if n.PrefixLen > c.st.maxPath {
		c.st.maxPath = n.PrefixLen
	}
	c.mixShape(uint64(n.PrefixLen)<<16 | uint64(real))

	next := depth + n.PrefixLen + 1
	var all []leafInfo
	for _, s := range live {
		c.mixShape(uint64(s.Byte) | 0x100)
		ls, err := c.verify(s.Child, next)
		if err != nil {
			return nil, err
		}
		// every key below carries the branch byte at that position
		for _, l := range ls {
			if len(l.tkey) < next {
				return nil, fmt.Errorf("key %x below class %d node is too short for branch position %d", l.tkey, n.Class, next-1)
			}
			if int(l.tkey[next-1]) != s.Byte {
				return nil, fmt.Errorf("key %x registered under byte %#x but carries %#x at position %d", l.tkey, s.Byte, l.tkey[next-1], next-1)
			}
		}
		all = append(all, ls...)
	}
	// compressed path == what all keys below share there, no more, no less
	first := all[0].tkey
	for _, l := range all[1:] {
		if !bytes.Equal(l.tkey[depth:depth+n.PrefixLen], first[depth:depth+n.PrefixLen]) {
			return nil, fmt.Errorf("compressed path of length %d at depth %d is not shared by keys %x and %x", n.PrefixLen, depth, first, l.tkey)
		}
	}
	// (c) inline bytes
	inl := n.PrefixLen
	if inl > c.lim {
		inl = c.lim
	}
	if inl > len(n.Prefix) {
		return nil, fmt.Errorf("inline path shorter (%d) than required (%d)", len(n.Prefix), inl)
	}
	if !bytes.Equal(n.Prefix[:inl], first[depth:depth+inl]) {
		return nil, fmt.Errorf("inline path bytes %x differ from the shared key bytes %x (depth %d, path length %d)", n.Prefix[:inl], first[depth:depth+inl], depth, n.PrefixLen)
	}
	return all, nil
}

// checkShape is the C11 oracle. ids: the reference model's value ids (sorted
// copy is made here); size: what Size() reported.
func checkShape(root *VNode, lim int, valID func(any) (uint64, bool), hasID bool, modelIDs []uint64, size int) (*shapeChk, error) {
	c := &shapeChk{lim: lim, valID: valID}
	if root == nil {
		if len(modelIDs) != 0 {
			return c, fmt.Errorf("index is empty but %d keys are stored", len(modelIDs))
		}
		if size != 0 {
			return c, fmt.Errorf("index is empty but Size()=%d", size)
		}
		return c, nil
	}
	leaves, err := c.verify(root, 0)
	if err != nil {
		return c, err
	}
	// prefix-freeness of the transformed key set is what makes "the" radix tree exist
	sorted := make([][]byte, len(leaves))
	for i, l := range leaves {
		sorted[i] = l.tkey
	}
	sort.Slice(sorted, func(i, j int) bool { return bytes.Compare(sorted[i], sorted[j]) < 0 })
	for i := 1; i < len(sorted); i++ {
		if bytes.HasPrefix(sorted[i], sorted[i-1]) {
			return c, fmt.Errorf("stored transformed keys %x and %x: one is a prefix of the other", sorted[i-1], sorted[i])
		}
	}
	// (f) reachable keys == reported size
	if len(leaves) != size {
		return c, fmt.Errorf("%d keys reachable but Size()=%d", len(leaves), size)
	}
	// (a) the reachable leaves are exactly the stored pairs
	if len(leaves) != len(modelIDs) {
		return c, fmt.Errorf("%d keys reachable but %d stored", len(leaves), len(modelIDs))
	}
	if hasID {
		got := make([]uint64, len(leaves))
		for i, l := range leaves {
			if !l.idOK {
				return c, fmt.Errorf("leaf %x carries a damaged value", l.tkey)
			}
			got[i] = l.id
		}
		want := append([]uint64{}, modelIDs...)
		sort.Slice(got, func(i, j int) bool { return got[i] < got[j] })
		sort.Slice(want, func(i, j int) bool { return want[i] < want[j] })
		for i := range got {
			if got[i] != want[i] {
				return c, fmt.Errorf("reachable leaves carry value ids that are not the stored ones (first difference: got %d want %d)", got[i], want[i])
			}
		}
	}
	return c, nil
}

// digest is the raw serialisation of everything the walker can see except
// addresses. withVals=false masks the values.
func digest(n *VNode, valID func(any) (uint64, bool), withVals bool, out *bytes.Buffer) {
	var u [8]byte
	put := func(x uint64) { binary.BigEndian.PutUint64(u[:], x); out.Write(u[:]) }
	if n == nil {
		out.WriteByte('N')
		return
	}
	if n.Leaf {
		out.WriteByte('L')
		put(uint64(len(n.Key)))
		out.Write(n.Key)
		put(uint64(len(n.TKey)))
		out.Write(n.TKey)
		if withVals {
			id, ok := valID(n.Value)
			put(id)
			if ok {
				out.WriteByte(1)
			} else {
				out.WriteByte(0)
			}
		}
		return
	}
	out.WriteByte('I')
	put(uint64(n.Class))
	put(uint64(n.ChildrenLen))
	put(uint64(n.PrefixLen))
	out.Write(n.Prefix)
	out.Write(n.RawKeys)
	for i := range n.Slots {
		s := &n.Slots[i]
		put(uint64(s.Index))
		put(uint64(int64(s.Byte)))
		put(uint64(s.Tag))
		fl := byte(0)
		if s.NonNil {
			fl |= 1
		}
		if s.Live {
			fl |= 2
		}
		out.WriteByte(fl)
		if s.Live {
			digest(s.Child, valID, withVals, out)
		}
	}
	out.WriteByte(')')
}

func digestOf(n *VNode, valID func(any) (uint64, bool), withVals bool) []byte {
	var b bytes.Buffer
	digest(n, valID, withVals, &b)
	return b.Bytes()
}

// leafIDs returns value ids in enumeration order.
func leafIDs(n *VNode, valID func(any) (uint64, bool), out *[]uint64) {
	if n == nil {
		return
	}
	if n.Leaf {
		id, _ := valID(n.Value)
		*out = append(*out, id)
		return
	}
	for i := range n.Slots {
		if n.Slots[i].Live {
			leafIDs(n.Slots[i].Child, valID, out)
		}
	}
}

// classHist counts inner nodes per class.
func classHist(n *VNode, h *[4]int) {
	if n == nil || n.Leaf {
		return
	}
	if i := classIdx(n.Class); i >= 0 {
		h[i]++
	}
	for i := range n.Slots {
		if n.Slots[i].Live {
			classHist(n.Slots[i].Child, h)
		}
	}
}

// findParentOf locates the inner node whose live child is the leaf with id.
func findParentOf(n *VNode, id uint64, valID func(any) (uint64, bool)) *VNode {
	if n == nil || n.Leaf {
		return nil
	}
	for i := range n.Slots {
		s := &n.Slots[i]
		if !s.Live || s.Child == nil {
			continue
		}
		if s.Child.Leaf {
			if x, _ := valID(s.Child.Value); x == id {
				return n
			}
		} else if p := findParentOf(s.Child, id, valID); p != nil {
			return p
		}
	}
	return nil
}
