package main

import (
	"bytes"
	"sort"
)

// Model is the reference: an ideal ordered map kept as a slice sorted by the
// oracle comparator. It never calls the library.
type entry struct {
	canon []byte // equality-class representative
	orig  []byte // the key exactly as given to the tree at the (first) Insert
	sk    []byte // collation: sort key of an independent collator instance
	id    uint64
}

type Model struct {
	kt KeyType
	co *collOracle
	es []entry
}

func newModel(kt KeyType) *Model {
	m := &Model{kt: kt}
	if kt.Kind == "collation" {
		name := kt.Coll
		if name == "default" {
			name = "root"
		}
		m.co = newCollOracle(name)
	}
	return m
}

func (m *Model) Len() int { return len(m.es) }

// probe builds the comparison form of a key.
func (m *Model) probe(k []byte) entry {
	e := entry{canon: m.kt.Canon(k), orig: k}
	if m.co != nil {
		e.sk = m.co.Key(k)
	}
	return e
}

func (m *Model) cmp(a, b *entry) int {
	if m.co != nil {
		return bytes.Compare(a.sk, b.sk)
	}
	return m.kt.Cmp(a.canon, b.canon)
}

// lowerBound returns the first index whose entry is >= p.
func (m *Model) lowerBound(p *entry) int {
	return sort.Search(len(m.es), func(i int) bool { return m.cmp(&m.es[i], p) >= 0 })
}

// find returns (index, found, conflict). conflict: the oracle order cannot tell
// p apart from a different stored key (collation precondition broken).
func (m *Model) find(p *entry) (int, bool, bool) {
	i := m.lowerBound(p)
	if i < len(m.es) && m.cmp(&m.es[i], p) == 0 {
		if bytes.Equal(m.es[i].canon, p.canon) {
			return i, true, false
		}
		return i, false, true
	}
	return i, false, false
}

func (m *Model) Get(k []byte) (uint64, bool) {
	p := m.probe(k)
	i, ok, _ := m.find(&p)
	if !ok {
		return 0, false
	}
	return m.es[i].id, true
}

// Put returns (isNew, conflict).
func (m *Model) Put(k []byte, id uint64) (bool, bool) {
	p := m.probe(k)
	i, ok, conflict := m.find(&p)
	if conflict {
		return false, true
	}
	if ok {
		m.es[i].id = id
		return false, false
	}
	p.id = id
	p.orig = clone(k)
	m.es = append(m.es, entry{})
	copy(m.es[i+1:], m.es[i:])
	m.es[i] = p
	return true, false
}

func (m *Model) Del(k []byte) bool {
	p := m.probe(k)
	i, ok, _ := m.find(&p)
	if !ok {
		return false
	}
	m.es = append(m.es[:i], m.es[i+1:]...)
	return true
}

// Conflicts reports whether inserting k would break "the collator tells the
// stored strings apart".
func (m *Model) Conflicts(k []byte) bool {
	p := m.probe(k)
	_, _, c := m.find(&p)
	return c
}

// keyMatches: does a key returned by the tree equal the stored entry "exactly
// as inserted" (NaN≡NaN, −0≢+0, bytes for strings)?
func (m *Model) keyMatches(ret []byte, e *entry) bool {
	switch m.kt.Kind {
	case "alpha", "collation":
		return bytes.Equal(ret, e.orig)
	}
	return bytes.Equal(m.kt.Canon(ret), e.canon)
}

// rangeIdx returns the half-open index interval of entries with lo<=k<=hi.
func (m *Model) rangeIdx(a, b []byte) (int, int) {
	pa, pb := m.probe(a), m.probe(b)
	if m.cmp(&pa, &pb) > 0 {
		pa, pb = pb, pa
	}
	lo := m.lowerBound(&pa)
	hi := sort.Search(len(m.es), func(i int) bool { return m.cmp(&m.es[i], &pb) > 0 })
	if hi < lo {
		hi = lo
	}
	return lo, hi
}

// nulRelated: alpha known-finding domain KF-NUL-PREFIX. Reports whether key k
// and some stored key u satisfy "u+0x00 is a proper prefix of k+0x00" or the
// converse, i.e. one is the other followed by 0x00 and anything.
func (m *Model) nulRelated(k []byte) bool {
	if m.kt.Kind != "alpha" {
		return false
	}
	// stored u = k[:i] with k[i]==0
	for i := 0; i < len(k); i++ {
		if k[i] == 0 {
			if _, ok := m.Get(k[:i]); ok {
				return true
			}
		}
	}
	// stored u starting with k+00
	p := append(clone(k), 0)
	pe := m.probe(p)
	i := m.lowerBound(&pe)
	if i < len(m.es) && bytes.HasPrefix(m.es[i].orig, p) {
		return true
	}
	return false
}
