//go:build verifnowalk

package main

// Fallback (tag verifnowalk): /repo/verif_walk.go does not compile against the
// current tree (a change moved or renamed what it reads). Every oracle that needs
// the structural view is off; C11, which is nothing but that view, has no verdict.

type VSlot struct {
	Index  int
	Byte   int
	NonNil bool
	Tag    int
	Live   bool
	Child  *VNode
}

type VNode struct {
	Leaf        bool
	Class       int
	ChildrenLen int
	PrefixLen   int
	Prefix      []byte
	RawKeys     []byte
	Slots       []VSlot
	Key         []byte
	TKey        []byte
	Value       any
}

const hookWalk = false
const hookLim = 10

func dumpTree(t any) *VNode { return nil }
