//go:build !verifnowalk

package main

import art "github.com/Clement-Jean/go-art"

// The structural walker hook (/repo/verif_walk.go) is compiled in.

type VNode = art.VerifNode
type VSlot = art.VerifSlot

const hookWalk = true
const hookLim = art.VerifMaxPrefixLen

func dumpTree(t any) *VNode { return t.(interface{ VerifDump() *art.VerifNode }).VerifDump() }
