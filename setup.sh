#!/bin/sh
# Offline setup: warm the Go build cache for every configuration the checks use.
ROOT=$(cd "$(dirname "$0")" && pwd)
GO=${VERIF_GO:-go1.26.8}
export GOFLAGS=-mod=mod GOPROXY=off GOTOOLCHAIN=local
unset GOARCH GOSUMDB
mkdir -p "$ROOT/.build"
cp /repo/go.sum "$ROOT/sim/go.sum" 2>/dev/null
cd "$ROOT/sim" || exit 1
$GO build -tags verif -o "$ROOT/.build/sim" . || exit 1
$GO build -tags verif -race -o "$ROOT/.build/sim-race" . || exit 1
$GO build -tags verif -gcflags=all=-d=checkptr=2 -o "$ROOT/.build/sim-checkptr" . || exit 1
GOARCH=386 $GO build -tags verif -o "$ROOT/.build/sim-386" . || exit 1
echo setup ok
