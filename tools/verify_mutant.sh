#!/bin/sh
# tools/verify_mutant.sh <Cxx> <a|b|...>   -- confirm a sub-agent's seeded change in its scratch worktree
# 1 suite passes with the change; 2 demo fails with it; 3 demo passes without it.
ID=$1; X=$2; WT=/tmp/wt-$ID; D=/tmp/${MUT:-mut}-$ID/$X
export GOFLAGS=-mod=mod GOPROXY=off
cd $WT || exit 2
git checkout -q -- . ; git clean -fdq
git apply $D/patch.diff || { echo "APPLY-FAIL"; exit 1; }
EXTRA=$(cat $D/runflags 2>/dev/null)
go test -vet=off -count=1 ./... >/tmp/vm-suite.log 2>&1; s1=$?
cp $D/mutdemo_test.go .
env $(cat $D/runenv 2>/dev/null) go test -vet=off -count=1 $EXTRA -run "$(grep -o 'func Test[A-Za-z0-9_]*' mutdemo_test.go | sed 's/func //' | paste -sd'|')" . >/tmp/vm-demo-with.log 2>&1; s2=$?
git checkout -q -- .
env $(cat $D/runenv 2>/dev/null) go test -vet=off -count=1 $EXTRA -run "$(grep -o 'func Test[A-Za-z0-9_]*' mutdemo_test.go | sed 's/func //' | paste -sd'|')" . >/tmp/vm-demo-without.log 2>&1; s3=$?
rm -f mutdemo_test.go; git clean -fdq
echo "$ID/$X suite_with_change=$s1 demo_with_change=$s2 demo_without_change=$s3"
[ $s1 -eq 0 ] && [ $s2 -ne 0 ] && [ $s3 -eq 0 ] && echo "CONFIRMED $ID/$X" || { echo "NOT-CONFIRMED $ID/$X"; tail -n 5 /tmp/vm-suite.log /tmp/vm-demo-with.log /tmp/vm-demo-without.log; }
