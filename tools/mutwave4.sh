#!/bin/sh
# tools/mutwave4.sh C12x/a ... : wave-4 layout (/tmp/mut4-<id><x>/<a|b>, worktree /tmp/wt-<id><x>)
for m in "$@"; do
  dirid=${m%/*}; x=${m#*/}; prop=$(echo $dirid | cut -c1-3)
  D=/tmp/mut4-$dirid/$x; WT=/tmp/wt-$dirid
  export GOFLAGS=-mod=mod GOPROXY=off
  cd $WT && git checkout -q -- . && git clean -fdq && git apply $D/patch.diff 2>/dev/null || { echo "$m APPLY-FAIL"; continue; }
  EXTRA=$(cat $D/runflags 2>/dev/null)
  go test -vet=off -count=1 ./... >/tmp/vm-suite.log 2>&1; s1=$?
  cp $D/mutdemo_test.go .
  T="$(grep -o 'func Test[A-Za-z0-9_]*' mutdemo_test.go | sed 's/func //' | paste -sd'|')"
  env $(cat $D/runenv 2>/dev/null) go test -vet=off -count=1 $EXTRA -run "$T" . >/tmp/vm-with.log 2>&1; s2=$?
  git checkout -q -- .
  env $(cat $D/runenv 2>/dev/null) go test -vet=off -count=1 $EXTRA -run "$T" . >/tmp/vm-without.log 2>&1; s3=$?
  rm -f mutdemo_test.go; git clean -fdq
  c="NOT-CONFIRMED($s1,$s2,$s3)"; [ $s1 -eq 0 ] && [ $s2 -ne 0 ] && [ $s3 -eq 0 ] && c=CONFIRMED
  cd /verif
  /verif/tools/mutcheck.sh $D/patch.diff ${CHECKS:-$prop} >/tmp/mutwave.out 2>&1
  r=$(grep -E '^C[0-9]+ rc=|^\[' /tmp/mutwave.out | head -n 3 | cut -c1-330 | tr '\n' ' ')
  echo "$m | $c | $r"
done
