#!/bin/sh
# tools/determinism.sh [runs]  — determinism self-test of the simulator itself.
# For every property: the same (seed, run) range is executed in several separate
# processes at GOMAXPROCS 1, 4 and 16; per-run trace hashes and transcript hashes
# must be identical everywhere.
N=${1:-300}
ROOT=/verif
cd $ROOT/sim && GOFLAGS=-mod=mod GOPROXY=off GOTOOLCHAIN=local go1.26.8 build -tags verif -o $ROOT/.build/sim . || exit 2
D=$(mktemp -d)
rc=0
for p in C01 C02 C03 C04 C05 C06 C08 C09 C10 C11 C12 C13 C14 C15 C18; do
  for seed in 1 7; do
    i=0
    for procs in 1 1 4 16; do
      i=$((i+1))
      VERIF_PROCS=$procs $ROOT/.build/sim worker -prop $p -seed $seed -from 0 -to $N -out $D/$p-$seed-$i.json >/dev/null 2>&1 &
    done
    wait
    python3 - "$D" "$p" "$seed" <<'PY' || rc=1
import json,sys
d,p,seed=sys.argv[1:4]
base=None
for i in range(1,5):
    r=json.load(open(f'{d}/{p}-{seed}-{i}.json'))['records']
    sig=[(x['run'],x['th'],x['tx'],bool(x.get('violation'))) for x in r]
    if base is None: base=sig
    elif sig!=base:
        diff=[a for a,b in zip(base,sig) if a!=b][:3]
        print(f'NONDETERMINISTIC {p} seed={seed} process {i}: {diff}'); sys.exit(1)
print(f'deterministic {p} seed={seed}: {len(base)} runs x 4 processes (GOMAXPROCS 1,1,4,16)')
PY
  done
done
rm -rf $D
exit $rc
