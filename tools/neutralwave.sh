#!/bin/sh
# tools/neutralwave.sh [checks...] — property-preserving edits: every check must stay silent (exit 0)
CHECKS=${*:-"C01 C02 C03 C04 C05 C06 C10 C11 C12 C13 C14 C15 C18 C17"}
for f in /verif/neutral/*.diff; do
  echo "== $(basename $f)"
  VERIF_BUDGET_S=${VERIF_BUDGET_S:-8} /verif/tools/mutcheck.sh $f $CHECKS 2>&1 | grep -E '^C[0-9]+ rc=' | awk '{print "   " $1, $2, ($2=="rc=0" ? "" : $0)}'
done
