#!/bin/sh
# tools/neutral_agent.sh N1/a N1/b ... : behaviour-preserving changes written by sub-agents; every check must stay silent
for m in "$@"; do
  f=/tmp/neu-$m/patch.diff
  cd /repo && git apply $f || { echo "$m APPLY-FAIL"; continue; }
  s=$(GOFLAGS=-mod=mod GOPROXY=off go test -vet=off -count=1 ./... >/dev/null 2>&1 && echo suite-ok || echo SUITE-FAIL)
  b=$(GOFLAGS=-mod=mod GOPROXY=off go build -tags verif ./... >/dev/null 2>&1 && echo verif-build-ok || echo VERIF-BUILD-FAIL)
  git checkout -q -- . ; git clean -fdq
  cd /verif
  r=$(VERIF_BUDGET_S=${VERIF_BUDGET_S:-8} tools/mutcheck.sh $f ${CHECKS:-C01 C02 C03 C04 C05 C06 C08 C09 C10 C11 C12 C13 C14 C15 C17 C18 C16} 2>&1 | grep -E '^C[0-9]+ rc=' | awk '{printf "%s:%s ", $1, $2}')
  echo "$m | $s $b | $r"
done
