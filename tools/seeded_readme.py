#!/usr/bin/env python3
"""Regenerates /verif/seeded/README.md from the meta.json files."""
import json, glob, os, re
rows = []
for f in sorted(glob.glob('/verif/seeded/*/meta.json')):
    d = os.path.basename(os.path.dirname(f))
    m = json.load(open(f))
    det = ' '.join(str(m.get('detected', '')).split())
    low = det.lower()
    if det.startswith('NOT caught'):
        st = 'NOT caught'
    elif low.startswith('not caught by') or low.startswith('not detectable by'):
        st = "caught by another property's check"
    elif 'strengthen' in low or 'caught after' in low or 'missed' in low or 'were added to the universes before' in low:
        st = 'caught after strengthening'
    else:
        st = 'caught'
    rows.append((d, m.get('property', ''), st, det))
order = ['caught', 'caught after strengthening', "caught by another property's check", 'NOT caught']
cnt = {k: sum(1 for r in rows if r[2] == k) for k in order}
out = ['# Seeded changes', '',
 "Every directory holds `patch.diff` (against /repo HEAD of the time it was written; after a later `fix:` commit a patch may need `git apply -3`), `mutdemo_test.go` (fails with the change, passes without), the author's `notes.md`, and `meta.json` (what it needs to manifest, what I ran, what detected it).",
 'All were written by sub-agents that saw only one property\'s text and a scratch worktree, and confirmed by me before any check was run against them. Directory names: property, a/b (x/y/z + a/b in wave 4), wave number (none = wave 1).', '',
 f"Totals: {len(rows)} changes — {cnt['caught']} caught, {cnt['caught after strengthening']} caught after strengthening, {cnt[order[2]]} caught by another property's check, {cnt['NOT caught']} NOT caught.", '',
 '| id | property | status | how |', '|---|---|---|---|']
for d, p, st, det in rows:
    out.append(f"| {d} | {p} | {st} | {det.replace('|', '/')} |")
open('/verif/seeded/README.md', 'w').write('\n'.join(out) + '\n')
print(len(rows), cnt)
