#!/usr/bin/env python3
"""tools/save_seeded.py Cxx/a 'detected by ...' : copy a confirmed seeded change into /verif/seeded/<id>/"""
import sys, os, shutil, json, re, subprocess
m, detected = sys.argv[1], sys.argv[2]
prop, x = m.split('/')
src = f'/tmp/' + os.environ.get('MUT','mut') + f'-{prop}/{x}'
dst = f'/verif/seeded/{prop}{x}' + os.environ.get('SUFFIX','')
os.makedirs(dst, exist_ok=True)
for f in ('patch.diff', 'mutdemo_test.go', 'notes.md'):
    shutil.copy(os.path.join(src, f), os.path.join(dst, f))
notes = open(os.path.join(src, 'notes.md')).read()
# the section that says what it needs to manifest
needs = ''
mm = re.search(r'(?is)#+[^\n]*(needs|manifest|trigger)[^\n]*\n(.*?)(\n#+ |\Z)', notes)
if mm:
    needs = ' '.join(mm.group(2).split())[:900]
flags = open(os.path.join(src, 'runflags')).read().strip() if os.path.exists(os.path.join(src, 'runflags')) else ''
meta = {
 'id': f'{prop}{x}',
 'property': prop,
 'origin': 'written by an independent sub-agent that saw only the property text and a scratch worktree of /repo (nothing from /verif)',
 'needs_to_manifest': needs,
 'confirmed_by_me': {
   'commands': [
     f'cd <scratch worktree of /repo HEAD> && git apply patch.diff && go test -vet=off -count=1 ./...   # suite passes with the change',
     f'cp mutdemo_test.go . && go test -vet=off -count=1 {flags} -run TestMutDemo .   # FAILS with the change',
     f'git checkout -- . && go test -vet=off -count=1 {flags} -run TestMutDemo .   # passes without it',
   ],
   'result': 'suite passes with the change; demonstration fails with it and passes without it',
 },
 'checks_run_against_it': f'git -C /repo apply patch.diff; ./check {prop} quick; git -C /repo checkout -- .',
 'detected': detected,
}
json.dump(meta, open(os.path.join(dst, 'meta.json'), 'w'), indent=1)
print('saved', dst)
