#!/bin/sh
# tools/mutcheck.sh <patch.diff> <Cxx> [<Cyy> ...]
# Applies a seeded change to /repo, runs the named quick checks, undoes the change.
# Prints one line per check:  <id> rc=<n> <first VIOLATION line or OK>
P=$1; shift
cd /repo || exit 2
if [ -n "$(git status --short)" ]; then echo "/repo not clean" >&2; exit 2; fi
git apply "$P" || { echo "patch does not apply" >&2; exit 2; }
trap 'cd /repo && git checkout -q -- . && git clean -fdq' EXIT INT TERM
cd /verif
for id in "$@"; do
  out=$(VERIF_BUDGET_S=${VERIF_BUDGET_S:-40} ./check $id ${TIER:-quick} 2>/tmp/mutcheck.err)
  rc=$?
  v=$(echo "$out" | grep -m1 '^VIOLATION')
  [ -z "$v" ] && v=$(echo "$out" | tail -1)
  echo "$id rc=$rc $v"
  if [ $rc -ne 0 ]; then grep -m3 -E '^\[.*\]   C|NOTE|failed' /tmp/mutcheck.err | cut -c1-400; fi
done
