#!/bin/sh
# tools/mutwave.sh Cxx/a Cyy/b ...  : confirm each seeded change, then run its property's quick check against it
for m in "$@"; do
  id=${m%/*}; x=${m#*/}
  c=$(/verif/tools/verify_mutant.sh $id $x | grep -E '^(CONFIRMED|NOT-CONFIRMED|APPLY-FAIL)')
  /verif/tools/mutcheck.sh /tmp/${MUT:-mut}-$m/patch.diff ${CHECKS:-$id} >/tmp/mutwave.out 2>&1
  r=$(grep -E '^C[0-9]+ rc=|^\[' /tmp/mutwave.out | head -n 3 | cut -c1-330 | tr '\n' ' ')
  echo "$m | $c | $r"
done
