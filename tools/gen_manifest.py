#!/usr/bin/env python3
"""Regenerates /verif/MANIFEST.json (kept in one place so the 17 entries stay consistent)."""
import json, subprocess
hooks = subprocess.run(['git','-C','/repo','log','--reverse','--format=%h','--grep=verif hooks'],capture_output=True,text=True).stdout.split() or ['427d70d', '4a40241']
props = {
 "C01": ("seeded history search (Insert/Delete/Search over all kinds and key types, plateau/sweep/fan phases) with step-by-step refinement against an ideal map; pool/GC environment events; inter-tree interleaving; GOARCH=386 batch; known-finding domain batch", "§6 C01, §14"),
 "C02": ("seeded history search; All/Backward compared with a sorted reference (independent comparators) after every mutating step; returned-key stability", "§6 C02, §14"),
 "C03": ("seeded history search with generated bound pairs, decoy calls before the first pass, peak battery at 256 children; Range compared with the filtered sorted reference", "§6 C03, §14"),
 "C04": ("seeded history search with generated prefixes (around the inline limit, sibling continuations), decoys, peak battery; Prefix compared with a HasPrefix filter of the reference", "§6 C04, §14"),
 "C05": ("seeded history search; Minimum/Maximum/TopK/BottomK (n up to MaxUint, after abandoned loops) compared with head/tail of the sorted reference", "§6 C05, §14"),
 "C06": ("seeded history search; Size() against reference cardinality and count(All()) after every step; insertion-path probes", "§6 C06"),
 "C08": ("seeded history search over 13 collator configurations and string/[]byte/[]rune keys (reused key buffers, very long keys, wide fan-outs); order and identity against an independent collator instance", "§6 C08, §14"),
 "C09": ("seeded history search over generated codec schemas in three codec styles (library encoders, own encoders with escaped strings, zero-copy decoding); tuple-lexicographic reference", "§6 C09, §14"),
 "C10": ("seeded node-level add/remove histories through a bare node handle, two interleaved handles, pool recycling, GC events; 256-probe reference table and scalar scan of the SWAR/SIMD primitives; GOARCH=386 batch", "§6 C10, §14.4"),
 "C11": ("seeded history search and closed small-universe walks; structural oracle (ideal compressed radix tree) over the walker's dump after every step; known-finding condition", "§6 C11"),
 "C12": ("seeded interleaving of 2..6 trees on one goroutine with grow/shrink churn, pool age/flush events, emptied-tree batteries; per-tree reference and replay of each tree's history alone on a fresh tree", "§6 C12, §14.2"),
 "C13": ("caller-buffer actor: spare capacity (sentinel/zero/0xFF filled), exactly-full slices, scanner-style reuse, scribble after return, overwrite between obtaining and ranging a sequence; byte-for-byte snapshots", "§6 C13, §14.5"),
 "C14": ("consumer actor: stop positions, re-iteration, nested re-iteration, abandoned first pass, other read-only calls between passes, against the first complete pass", "§6 C14, §14.6"),
 "C15": ("read-only and no-op steps interleaved in seeded histories; raw structural digest before = after, and twin replay of the mutations alone on a fresh tree", "§6 C15, §14.2"),
 "C16": ("real goroutines under the race detector with a seeded baton schedule invisible to it (assembly baton), GOMAXPROCS 1/4/16, pool-churn and shared-reader workloads; statement-level baton passing (instrumented scratch copy) with paired yields, bursts and yields at statements touching shared state; per-goroutine sequential reference", "§4.5, §6 C16, §14.6"),
 "C17": ("long seeded workloads at bounded size with forced collections (mixed and single-kind queries, queries that find nothing, overwrites, churn, drain with fresh keys, cross-tree retention); live-heap growth against thresholds and against what the tree stores", "§6 C17, §14.2"),
 "C18": ("forced collections at seeded instants (step boundaries, inside consumer callbacks, at statement points inside operations of an instrumented scratch copy) with freed memory clobbered (GODEBUG=clobberfree=1), checkptr=2 build, value-type matrix; deep read-back", "§6 C18, §14"),
}
checks = []
for pid, (tech, ref) in props.items():
    checks.append({
        "property_id": pid,
        "quick_cmd": f"./check {pid} quick",
        "thorough_cmd": f"./check {pid} thorough",
        "evidence_file": f"evidence/{pid}.json",
        "replay_cmd_template": f"./check {pid} --replay {{path}}",
        "engine": "sim",
        "level_claimed": {"category": "exploration", "text": "seeded deterministic simulation: many short, diverse runs (explicit traces of operations and environment events) executed against the real library with the property's oracle evaluated step by step; every failure is minimised and replayed in a fresh process; a clean batch is evidence for what was explored, not proof", "design_ref": ref},
        "level_note": "trusts the harness's reference model and comparators, the verif-tag hooks in /repo (read-only views), the Go runtime (collector, sync.Pool, race detector); samples the space, does not enumerate it; C16 replays are retried because sync.Pool drops Puts at random under -race",
        "technique": "deterministic simulation with fault injection: " + tech,
    })
m = {
 "version": 1,
 "setup_cmd": "./setup.sh",
 "hooks": {"guard": "verif", "enable": "go build -tags verif (the harness module /verif/sim replaces github.com/Clement-Jean/go-art with /repo); ./check falls back to -tags 'verif verifnoiter', 'verif verifnonode', 'verif verifnonode verifnowalk' when a hook file does not compile against the tree", "baseline_off_cmd": "cd /repo && GOFLAGS=-mod=mod GOPROXY=off go test -vet=off -count=1 -timeout 25m ./...", "source_commits": hooks, "add_only": True},
 "engines": [{"name": "sim", "path": "sim/", "serves_properties": list(props.keys()), "kind_free_text": "single Go binary: seeded trace generator, executor with reference models and oracles (world / node / heap / race engines), worker fan-out, delta-debugging minimiser, replay; build variants -race, checkptr, GOARCH=386, statement-point instrumented copy (instrument/)"}],
 "checks": checks,
 "notes": "exit 0 held / 1 VIOLATION (confirmed and replayed in a fresh process) / 2 check could not be completed (build failure, watchdog, harness self-check, only inconclusive candidates). Env: VERIF_SEED, VERIF_TIER, VERIF_BUDGET_S, VERIF_WORKERS, VERIF_RUNS, VERIF_REPO. Known findings: KNOWN_FINDINGS.txt. Seeded changes: seeded/. Property-preserving edits: neutral/.",
 "not_applicable": [
  {"property_id": "C07", "reason": "Transform/Restore of the numeric codecs are pure functions of one value: no history, schedule, fault or interleaving for a simulator to vary (incidental coverage only: C02/C03/C09 order boundary-biased numeric values with comparators that never call the library's encoders)"},
  {"property_id": "C19", "reason": "a static fact about files in the working tree (trees.go == gofmt(generator(template))): no execution of the library, nothing to schedule or fault"},
 ],
}
json.dump(m, open('/verif/MANIFEST.json', 'w'), indent=1)
print("MANIFEST.json written:", len(checks), "checks")
