module verifinstrument

go 1.24.0
