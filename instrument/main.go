// instrument: copy a Go package tree and insert
//
//	if VerifPoint != nil { VerifPoint(<id>) }
//
// before every statement of every function body of the root package's non-test
// files. Used only on a scratch copy of /repo (thorough tiers of C16 and C18);
// nothing in /repo is touched.
//
// usage: instrument <srcdir> <dstdir>
package main

import (
	"bytes"
	"fmt"
	"go/ast"
	"go/format"
	"go/parser"
	"go/token"
	"io"
	"os"
	"path/filepath"
	"strings"
)

var nextID int

// Statements that touch state shared between trees and goroutines: package-level
// variables, sync/atomic calls, atomic or lock method calls. The point before such a
// statement and the next point reached after it are listed in VerifSharedPoints —
// the windows of a check-then-act on shared state open and close there, so the
// scheduler of the race engine prefers them.
var pkgVars = map[string]bool{}
var topSpecs = map[any]bool{}
var sharedIDs []int
var markNext bool

var syncMethods = map[string]bool{"Load": true, "Store": true, "CompareAndSwap": true, "Swap": true, "Add": true, "And": true, "Or": true,
	"Lock": true, "Unlock": true, "RLock": true, "RUnlock": true, "TryLock": true}

func exprTouches(n ast.Node) bool {
	if n == nil {
		return false
	}
	found := false
	ast.Inspect(n, func(x ast.Node) bool {
		if found {
			return false
		}
		switch v := x.(type) {
		case *ast.FuncLit:
			return false
		case *ast.BlockStmt:
			return false
		case *ast.Ident:
			if pkgVars[v.Name] && (v.Obj == nil || topSpecs[v.Obj.Decl]) {
				found = true
			}
		case *ast.SelectorExpr:
			if id, ok := v.X.(*ast.Ident); ok && (id.Name == "atomic" || id.Name == "sync") && id.Obj == nil {
				found = true
			}
		case *ast.CallExpr:
			if sel, ok := v.Fun.(*ast.SelectorExpr); ok && syncMethods[sel.Sel.Name] {
				found = true
			}
		}
		return !found
	})
	return found
}

func nodeOrNil[T ast.Node](n T, isNil bool) ast.Node {
	if isNil {
		return nil
	}
	return n
}

// headerTouches: does the statement itself (for compound statements: its header,
// not its nested blocks) touch shared state?
func headerTouches(s ast.Stmt) bool {
	switch x := s.(type) {
	case *ast.BlockStmt:
		return false
	case *ast.IfStmt:
		return exprTouches(nodeOrNil(x.Init, x.Init == nil)) || exprTouches(x.Cond)
	case *ast.ForStmt:
		return exprTouches(nodeOrNil(x.Init, x.Init == nil)) || exprTouches(nodeOrNil(x.Cond, x.Cond == nil)) || exprTouches(nodeOrNil(x.Post, x.Post == nil))
	case *ast.RangeStmt:
		return exprTouches(x.X)
	case *ast.SwitchStmt:
		return exprTouches(nodeOrNil(x.Init, x.Init == nil)) || exprTouches(nodeOrNil(x.Tag, x.Tag == nil))
	case *ast.TypeSwitchStmt:
		return exprTouches(nodeOrNil(x.Init, x.Init == nil)) || exprTouches(x.Assign)
	case *ast.SelectStmt:
		return true
	case *ast.LabeledStmt:
		return headerTouches(x.Stmt)
	}
	return exprTouches(s)
}

func pointStmt() ast.Stmt {
	nextID++
	id := &ast.BasicLit{Kind: token.INT, Value: fmt.Sprint(nextID)}
	return &ast.IfStmt{
		Cond: &ast.BinaryExpr{X: ast.NewIdent("VerifPoint"), Op: token.NEQ, Y: ast.NewIdent("nil")},
		Body: &ast.BlockStmt{List: []ast.Stmt{&ast.ExprStmt{X: &ast.CallExpr{Fun: ast.NewIdent("VerifPoint"), Args: []ast.Expr{id}}}}},
	}
}

func instrList(list []ast.Stmt) []ast.Stmt {
	var out []ast.Stmt
	for _, s := range list {
		touches := headerTouches(s)
		if _, labeled := s.(*ast.LabeledStmt); !labeled {
			out = append(out, pointStmt())
			if touches || markNext {
				sharedIDs = append(sharedIDs, nextID)
				markNext = false
			}
		}
		if touches {
			markNext = true // the next point reached: the first nested one, or the one after s
		}
		instrStmt(s)
		out = append(out, s)
	}
	return out
}

func instrBlock(b *ast.BlockStmt) {
	if b != nil {
		b.List = instrList(b.List)
	}
}

// instrStmt descends into the nested statement lists of s.
func instrStmt(s ast.Stmt) {
	switch x := s.(type) {
	case *ast.BlockStmt:
		instrBlock(x)
	case *ast.IfStmt:
		instrBlock(x.Body)
		if x.Else != nil {
			instrStmt(x.Else)
		}
	case *ast.ForStmt:
		instrBlock(x.Body)
	case *ast.RangeStmt:
		instrBlock(x.Body)
	case *ast.SwitchStmt:
		instrClauses(x.Body)
	case *ast.TypeSwitchStmt:
		instrClauses(x.Body)
	case *ast.SelectStmt:
		instrClauses(x.Body)
	case *ast.LabeledStmt:
		instrStmt(x.Stmt)
	}
	// function literals inside expressions
	ast.Inspect(s, func(n ast.Node) bool {
		if fl, ok := n.(*ast.FuncLit); ok {
			if !seenLit[fl] {
				seenLit[fl] = true
				instrBlock(fl.Body)
			}
			return false
		}
		if n != s {
			switch n.(type) {
			case *ast.BlockStmt, *ast.IfStmt, *ast.ForStmt, *ast.RangeStmt, *ast.SwitchStmt, *ast.TypeSwitchStmt, *ast.SelectStmt, *ast.LabeledStmt:
				return false // handled by the explicit descent above
			}
		}
		return true
	})
}

var seenLit = map[*ast.FuncLit]bool{}

// the body of a switch/select is a list of clauses, not statements
func instrClauses(b *ast.BlockStmt) {
	if b == nil {
		return
	}
	for _, c := range b.List {
		switch cc := c.(type) {
		case *ast.CaseClause:
			cc.Body = instrList(cc.Body)
		case *ast.CommClause:
			cc.Body = instrList(cc.Body)
		}
	}
}

func instrumentFile(src, dst string) error {
	fset := token.NewFileSet()
	f, err := parser.ParseFile(fset, src, nil, parser.ParseComments)
	if err != nil {
		return err
	}
	// keep only the comments before the package clause (build constraints);
	// go/printer cannot mix position-less inserted nodes with free-floating comments
	var keep []*ast.CommentGroup
	for _, cg := range f.Comments {
		if cg.End() < f.Package {
			keep = append(keep, cg)
		}
	}
	f.Comments = keep
	f.Doc = nil
	for _, d := range f.Decls {
		if gd, ok := d.(*ast.GenDecl); ok && gd.Tok == token.VAR {
			for _, sp := range gd.Specs {
				topSpecs[sp] = true
			}
		}
	}
	for _, d := range f.Decls {
		if fd, ok := d.(*ast.FuncDecl); ok {
			fd.Doc = nil
			if fd.Body != nil {
				instrBlock(fd.Body)
			}
		}
		if gd, ok := d.(*ast.GenDecl); ok {
			gd.Doc = nil
			ast.Inspect(gd, func(n ast.Node) bool {
				if fl, ok := n.(*ast.FuncLit); ok && !seenLit[fl] {
					seenLit[fl] = true
					from := nextID
					instrBlock(fl.Body)
					// a function stored in a package-level variable (a pool's New): all of it
					for id := from + 1; id <= nextID; id++ {
						if len(sharedIDs) == 0 || sharedIDs[len(sharedIDs)-1] != id {
							sharedIDs = append(sharedIDs, id)
						}
					}
					return false
				}
				return true
			})
		}
	}
	var buf bytes.Buffer
	if err := format.Node(&buf, fset, f); err != nil {
		return err
	}
	return os.WriteFile(dst, buf.Bytes(), 0o644)
}

func joinInts(a []int) string {
	var b strings.Builder
	for i, v := range a {
		if i > 0 {
			b.WriteString(", ")
		}
		fmt.Fprint(&b, v)
	}
	return b.String()
}

func copyFile(src, dst string) error {
	in, err := os.Open(src)
	if err != nil {
		return err
	}
	defer in.Close()
	os.MkdirAll(filepath.Dir(dst), 0o755)
	out, err := os.Create(dst)
	if err != nil {
		return err
	}
	defer out.Close()
	_, err = io.Copy(out, in)
	return err
}

func main() {
	if len(os.Args) != 3 {
		fmt.Fprintln(os.Stderr, "usage: instrument <srcdir> <dstdir>")
		os.Exit(2)
	}
	src, dst := os.Args[1], os.Args[2]
	os.MkdirAll(dst, 0o755)
	ents, err := os.ReadDir(src)
	if err != nil {
		fmt.Fprintln(os.Stderr, err)
		os.Exit(2)
	}
	for _, e := range ents {
		name := e.Name()
		if e.IsDir() || !strings.HasSuffix(name, ".go") || strings.HasSuffix(name, "_test.go") || strings.HasPrefix(name, "verif_") {
			continue
		}
		if f, err := parser.ParseFile(token.NewFileSet(), filepath.Join(src, name), nil, parser.SkipObjectResolution); err == nil {
			for _, d := range f.Decls {
				if gd, ok := d.(*ast.GenDecl); ok && gd.Tok == token.VAR {
					for _, sp := range gd.Specs {
						for _, n := range sp.(*ast.ValueSpec).Names {
							if n.Name != "_" {
								pkgVars[n.Name] = true
							}
						}
					}
				}
			}
		}
	}
	files := 0
	for _, e := range ents {
		name := e.Name()
		if e.IsDir() {
			continue // only the root package is needed by the harness
		}
		sp, dp := filepath.Join(src, name), filepath.Join(dst, name)
		switch {
		case strings.HasSuffix(name, "_test.go"):
			continue
		case strings.HasSuffix(name, ".go") && !strings.HasPrefix(name, "verif_") && name != "nodekind_string.go":
			if err := instrumentFile(sp, dp); err != nil {
				fmt.Fprintf(os.Stderr, "instrument %s: %v\n", name, err)
				os.Exit(1)
			}
			files++
		case strings.HasSuffix(name, ".go") || strings.HasSuffix(name, ".s") || name == "go.mod" || name == "go.sum":
			if err := copyFile(sp, dp); err != nil {
				fmt.Fprintln(os.Stderr, err)
				os.Exit(1)
			}
		}
	}
	hook := "package art\n\n// VerifPoint is called before every statement of the instrumented copy.\nvar VerifPoint func(int)\n\nconst VerifPointCount = " + fmt.Sprint(nextID) + "\n\n// VerifSharedPoints: points around statements that touch package-level variables,\n// sync/atomic calls or atomic/lock methods.\nvar VerifSharedPoints = []int{" + joinInts(sharedIDs) + "}\n"
	if err := os.WriteFile(filepath.Join(dst, "verif_point.go"), []byte(hook), 0o644); err != nil {
		fmt.Fprintln(os.Stderr, err)
		os.Exit(1)
	}
	fmt.Printf("instrumented %d files, %d points (%d around shared state)\n", files, nextID, len(sharedIDs))
}
