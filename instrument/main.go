// instrument: copy a Go package tree and insert
//
//	if VerifPoint != nil { VerifPoint(<id>) }
//
// before every statement of every function body of the root package's non-test
// files. Used only on a scratch copy of /repo (thorough tiers of C16 and C18);
// nothing in /repo is touched.
//
// usage: instrument <srcdir> <dstdir>
package main

import (
	"bytes"
	"fmt"
	"go/ast"
	"go/format"
	"go/parser"
	"go/token"
	"io"
	"os"
	"path/filepath"
	"strings"
)

var nextID int

func pointStmt() ast.Stmt {
	nextID++
	id := &ast.BasicLit{Kind: token.INT, Value: fmt.Sprint(nextID)}
	return &ast.IfStmt{
		Cond: &ast.BinaryExpr{X: ast.NewIdent("VerifPoint"), Op: token.NEQ, Y: ast.NewIdent("nil")},
		Body: &ast.BlockStmt{List: []ast.Stmt{&ast.ExprStmt{X: &ast.CallExpr{Fun: ast.NewIdent("VerifPoint"), Args: []ast.Expr{id}}}}},
	}
}

func instrList(list []ast.Stmt) []ast.Stmt {
	var out []ast.Stmt
	for _, s := range list {
		instrStmt(s)
		if _, labeled := s.(*ast.LabeledStmt); !labeled {
			out = append(out, pointStmt())
		}
		out = append(out, s)
	}
	return out
}

func instrBlock(b *ast.BlockStmt) {
	if b != nil {
		b.List = instrList(b.List)
	}
}

// instrStmt descends into the nested statement lists of s.
func instrStmt(s ast.Stmt) {
	switch x := s.(type) {
	case *ast.BlockStmt:
		instrBlock(x)
	case *ast.IfStmt:
		instrBlock(x.Body)
		if x.Else != nil {
			instrStmt(x.Else)
		}
	case *ast.ForStmt:
		instrBlock(x.Body)
	case *ast.RangeStmt:
		instrBlock(x.Body)
	case *ast.SwitchStmt:
		instrClauses(x.Body)
	case *ast.TypeSwitchStmt:
		instrClauses(x.Body)
	case *ast.SelectStmt:
		instrClauses(x.Body)
	case *ast.LabeledStmt:
		instrStmt(x.Stmt)
	}
	// function literals inside expressions
	ast.Inspect(s, func(n ast.Node) bool {
		if fl, ok := n.(*ast.FuncLit); ok {
			if !seenLit[fl] {
				seenLit[fl] = true
				instrBlock(fl.Body)
			}
			return false
		}
		if n != s {
			switch n.(type) {
			case *ast.BlockStmt, *ast.IfStmt, *ast.ForStmt, *ast.RangeStmt, *ast.SwitchStmt, *ast.TypeSwitchStmt, *ast.SelectStmt, *ast.LabeledStmt:
				return false // handled by the explicit descent above
			}
		}
		return true
	})
}

var seenLit = map[*ast.FuncLit]bool{}

// the body of a switch/select is a list of clauses, not statements
func instrClauses(b *ast.BlockStmt) {
	if b == nil {
		return
	}
	for _, c := range b.List {
		switch cc := c.(type) {
		case *ast.CaseClause:
			cc.Body = instrList(cc.Body)
		case *ast.CommClause:
			cc.Body = instrList(cc.Body)
		}
	}
}

func instrumentFile(src, dst string) error {
	fset := token.NewFileSet()
	f, err := parser.ParseFile(fset, src, nil, parser.ParseComments)
	if err != nil {
		return err
	}
	// keep only the comments before the package clause (build constraints);
	// go/printer cannot mix position-less inserted nodes with free-floating comments
	var keep []*ast.CommentGroup
	for _, cg := range f.Comments {
		if cg.End() < f.Package {
			keep = append(keep, cg)
		}
	}
	f.Comments = keep
	f.Doc = nil
	for _, d := range f.Decls {
		if fd, ok := d.(*ast.FuncDecl); ok {
			fd.Doc = nil
			if fd.Body != nil {
				instrBlock(fd.Body)
			}
		}
		if gd, ok := d.(*ast.GenDecl); ok {
			gd.Doc = nil
			ast.Inspect(gd, func(n ast.Node) bool {
				if fl, ok := n.(*ast.FuncLit); ok && !seenLit[fl] {
					seenLit[fl] = true
					instrBlock(fl.Body)
					return false
				}
				return true
			})
		}
	}
	var buf bytes.Buffer
	if err := format.Node(&buf, fset, f); err != nil {
		return err
	}
	return os.WriteFile(dst, buf.Bytes(), 0o644)
}

func copyFile(src, dst string) error {
	in, err := os.Open(src)
	if err != nil {
		return err
	}
	defer in.Close()
	os.MkdirAll(filepath.Dir(dst), 0o755)
	out, err := os.Create(dst)
	if err != nil {
		return err
	}
	defer out.Close()
	_, err = io.Copy(out, in)
	return err
}

func main() {
	if len(os.Args) != 3 {
		fmt.Fprintln(os.Stderr, "usage: instrument <srcdir> <dstdir>")
		os.Exit(2)
	}
	src, dst := os.Args[1], os.Args[2]
	os.MkdirAll(dst, 0o755)
	ents, err := os.ReadDir(src)
	if err != nil {
		fmt.Fprintln(os.Stderr, err)
		os.Exit(2)
	}
	files := 0
	for _, e := range ents {
		name := e.Name()
		if e.IsDir() {
			continue // only the root package is needed by the harness
		}
		sp, dp := filepath.Join(src, name), filepath.Join(dst, name)
		switch {
		case strings.HasSuffix(name, "_test.go"):
			continue
		case strings.HasSuffix(name, ".go") && !strings.HasPrefix(name, "verif_") && name != "nodekind_string.go":
			if err := instrumentFile(sp, dp); err != nil {
				fmt.Fprintf(os.Stderr, "instrument %s: %v\n", name, err)
				os.Exit(1)
			}
			files++
		case strings.HasSuffix(name, ".go") || strings.HasSuffix(name, ".s") || name == "go.mod" || name == "go.sum":
			if err := copyFile(sp, dp); err != nil {
				fmt.Fprintln(os.Stderr, err)
				os.Exit(1)
			}
		}
	}
	hook := "package art\n\n// VerifPoint is called before every statement of the instrumented copy.\nvar VerifPoint func(int)\n\nconst VerifPointCount = " + fmt.Sprint(nextID) + "\n"
	if err := os.WriteFile(filepath.Join(dst, "verif_point.go"), []byte(hook), 0o644); err != nil {
		fmt.Fprintln(os.Stderr, err)
		os.Exit(1)
	}
	fmt.Printf("instrumented %d files, %d points\n", files, nextID)
}
